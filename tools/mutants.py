#!/usr/bin/env python3
"""Self-test of the monitors: deliberate property-breaking edits applied to a *scratch copy*
of the repository (never to /repo), each of which must (a) keep the 64 tests green and
(b) make the quick tier of the named check exit 1.

usage: tools/mutants.py [--no-tests] [--tier quick] [id-substring ...]
"""
import json
import os
import shutil
import subprocess
import sys
import time
from concurrent.futures import ThreadPoolExecutor
from pathlib import Path

V = Path(__file__).resolve().parent.parent
sys.path.insert(0, str(V))
from vf.selftest.catalogue import MUTANTS  # noqa: E402

REPO = Path("/repo")
BASE = Path(os.environ.get("VERIF_MUT_DIR", "/dev/shm/vf-mutants"))


def prepare(m):
    d = BASE / m["id"]
    if d.exists():
        shutil.rmtree(d)
    d.mkdir(parents=True)
    for name in ("src", "tests", "pyproject.toml"):
        src = REPO / name
        if src.is_dir():
            shutil.copytree(src, d / name, ignore=shutil.ignore_patterns("__pycache__", "*.egg-info"))
        else:
            shutil.copy(src, d / name)
    for edit in m["edits"]:
        p = d / edit["file"]
        s = p.read_text()
        if s.count(edit["old"]) != 1:
            raise SystemExit(f"{m['id']}: pattern occurs {s.count(edit['old'])}x in {edit['file']}: {edit['old'][:60]!r}")
        p.write_text(s.replace(edit["old"], edit["new"]))
    return d


def run_tests(d):
    env = {**os.environ, "PYTHONPATH": str(d / "src"), "PYTHONDONTWRITEBYTECODE": "1"}
    cp = subprocess.run(
        ["/venv/bin/python", "-m", "pytest", "-q", "-x", "-p", "no:cacheprovider", "tests"],
        cwd=d, env=env, stdout=subprocess.PIPE, stderr=subprocess.STDOUT, timeout=900,
    )
    tail = cp.stdout.decode().strip().splitlines()[-1] if cp.stdout.strip() else ""
    return cp.returncode == 0, tail


def run_check(d, prop, tier, seed):
    env = {**os.environ, "VERIF_REPO": str(d), "VERIF_SEED": str(seed), "VERIF_EVIDENCE_DIR": str(d / "evidence"), "VERIF_REPLAY_DIR": str(d / "replays")}
    t0 = time.time()
    cp = subprocess.run([str(V / "check"), prop, "--tier", tier], cwd=V, env=env, stdout=subprocess.PIPE, stderr=subprocess.STDOUT, timeout=7200)
    out = cp.stdout.decode()
    sigs = [l.strip() for l in out.splitlines() if l.strip().startswith("signature=")]
    return cp.returncode, sigs, time.time() - t0, out


def one(m, tier, do_tests, seed):
    d = prepare(m)
    try:
        ok, tail = run_tests(d) if do_tests else (True, "skipped")
        res = []
        for prop in m["props"]:
            rc, sigs, dt, out = run_check(d, prop, tier, seed)
            res.append((prop, rc, sigs[:3], dt, out))
        return m, ok, tail, res
    finally:
        shutil.rmtree(d, ignore_errors=True)


def main():
    args = [a for a in sys.argv[1:] if not a.startswith("--")]
    do_tests = "--no-tests" not in sys.argv
    tier = "thorough" if "--thorough" in sys.argv else "quick"
    verbose = "--verbose" in sys.argv
    seed = int(os.environ.get("VERIF_SEED", "0"))
    sel = [m for m in MUTANTS if not args or any(a in m["id"] for a in args)]
    BASE.mkdir(parents=True, exist_ok=True)
    bad = 0
    with ThreadPoolExecutor(max_workers=int(os.environ.get("MUT_JOBS", "4"))) as ex:
        for m, ok, tail, res in ex.map(lambda m: one(m, tier, do_tests, seed), sel):
            for prop, rc, sigs, dt, out in res:
                caught = rc == 1
                status = "CAUGHT" if caught else ("INCONCLUSIVE" if rc == 2 else "MISSED")
                if not caught:
                    bad += 1
                print(f"{m['id']:<34} {prop} {status:<12} tests={'pass' if ok else 'FAIL'} ({tail[-40:]}) {dt:5.1f}s {sigs[:2]}")
                if verbose or rc != 1:
                    print("    " + "\n    ".join(out.strip().splitlines()[-6:]))
    shutil.rmtree(BASE, ignore_errors=True)
    print(f"{len(sel)} mutants, {bad} problems")
    sys.exit(1 if bad else 0)


if __name__ == "__main__":
    main()
