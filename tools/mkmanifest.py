#!/usr/bin/env python3
"""Regenerate MANIFEST.json from the table below (kept valid against the schema)."""
import json
import subprocess
from pathlib import Path

V = Path(__file__).resolve().parent.parent

CHECKS = {
    # id: (category, technique, level text, level note, design ref)
    "C12": (
        "exploration",
        "runtime contract (icontract post-condition + exception observer) on the real find_overlaps vs brute-force scan; exhaustive small space + random + in-situ remap lookups; stateful classes (late and failed adds, renamed scaffolds, rows replaced in place, one-shot iterables, derived assemblies)",
        "Every lookup the workloads make (exhaustive sub-space of <=4-row scaffolds x all intervals, random large scaffolds, and all lookups made by the remap pipeline on generated maps) is compared with a linear scan; holds on the executions enumerated in the evidence, nothing more.",
        "Trusts the 25-line reference scan and the plain-data conversion; domain 1<=a<=b on non-empty scaffolds.",
        "3-C12",
    ),
    "C01": (
        "exploration",
        "conservation oracle (interval partition of every input contig over all output assemblies pooled) on every completed remap of seeded PretextView-model, hostile, designed-tag and two-haplotype maps; CLI slice re-parses the written TPF/AGP files with independent parsers, with the indexer on small buffers, incl. a second run after the FASTA was replaced at the same path with the cache files' mtime; API inputs are built from one working list refilled per scaffold",
        "Every completed run of the workloads (in-memory and through the CLI's written files) is checked for lost, duplicated or invented bases; runs that end in an error are counted by exception type and raising function.",
        "Valid input assemblies (disjoint contig intervals, unique scaffold names); any exception counts as 'ends in an error'.",
        "3-C01",
    ),
    "C02": (
        "exploration",
        "unambiguous-history oracle: base-level placement map of the outputs; affine placement, orientation, internal gaps and Pretext order of every piece core; exact cut coordinate; exceptions on PretextView-model maps are violations",
        "For each generated PretextView-model edit script the output position of core bases (all contig-interval ends and midpoints inside the core; every base in the dense shards) is compared with y = y0 + sigma (x - x0); cuts deeper than the margin must appear at the designated contig coordinate.",
        "PretextView model as stated in the property; margin 3*(1+floor t); sampling of core bases except in dense shards.",
        "3-C02",
    ),
    "C05": (
        "exploration",
        "independent line-by-line AGP/TPF parser+formatter as executable model: round-trip laws on generated assemblies, byte equality with the reference formatter, AGP->TPF->AGP, and line accounting on line-level corruptions (same rows as the model or an error); asm-format CLI slice (CRLF inputs compared as bytes of an output file); every writer call must leave the assembly as it was",
        "Every generated assembly goes through parse(format(A))==A, format(parse(T))==T, the gap-type table and AGP->TPF->AGP; each corrupted canonical text must be rejected when the model calls a line invalid and otherwise yield exactly the model's rows; the CLI is driven with files, stdin, -i/-f overrides and CRLF input.",
        "Name/tag/header domain of DESIGN 5.2; corruptions use clearly non-numeric tokens.",
        "3-C05",
    ),
    "C06": (
        "exploration",
        "post-condition on the real format_agp at every call site (tee on the file argument) validated by an independent AGP validator; workloads: all remap outputs, FASTA .agp caches, asm-format, pretext-to-asm AGP and FASTA+AGP outputs with small stream buffers (object length = record length); fault-injection leg (FASTA writer fails part-way: any AGP left must match the FASTA beside it); FASTA run into a directory holding the AGP files of an earlier AGP run; second auto_load of one FastaIndex object after the FASTA changed",
        "Every AGP text that any workload causes the tools to write is validated for tiling from 1, part numbers, spans, U/yes/gap type and last end = scaffold length (and FASTA record length where a FASTA is written with it).",
        "Gap length >= 1; assemblies with duplicate object names are left to C10.",
        "3-C06",
    ),
    "C07": (
        "exploration",
        "adjacency-history oracle: unordered pairs of facing contig ends (name, coordinate, lo|hi) with the gap rows between them, input vs every output scaffold; CLI leg: every AGP/TPF file written for one- to four-haplotype maps read back block by block under the same oracle, with a monitor on merge_assemblies that attributes a block to known finding D11 only when it is same-named scaffolds from different merged assemblies",
        "Every junction of every output scaffold of the completed runs is classified (gapless / input gap kept / join gap) and checked against the input adjacency map; sentence 1 on all maps incl. hostile, sentence 2 on PretextView-model and designed-tag maps.",
        "Halves of a cut contig meeting again count as input neighbours; with several consecutive input gap rows each output row must be one of them.",
        "3-C07",
    ),
    "C08": (
        "exploration",
        "null-map workload (whole, uncut, unpainted or all-painted scaffolds at every texel size with Pretext's end rounding, sub-texel scaffolds present/absent, inputs with leading/trailing gaps and haplotype-prefixed names) with identity + zero-statistics oracle; every 25th map also through the pretext-to-asm CLI (one assembly file, contents, zero statistics in log and info YAML); FASTA-input leg (LF/CRLF, small indexer buffers, sequences and AGP rows compared) run with cold and warm index cache; contig names that look like assembly-name prefixes; input text in other legal spellings (N-type gaps, TPF method column, whole-number texel header)",
        "Each generated null map must give exactly one (primary) assembly with the input scaffolds by name and row-for-row, zero cuts/breaks/joins; painted variant: same row lists, names prefix+rank by non-increasing sequence length.",
        "Last-contig precondition applied as > ceil(t)+1 bp; order compared by name; scaffold-terminal input gaps are not expected in the output (C07).",
        "3-C08",
    ),
    "C09": (
        "exploration",
        "designed-tagging workload (intent kept beside each case) + placement-map oracle: the assembly holding the core bases of every piece must be the designed destination; absent sequence follows the Target / haplotype-by-name rules; CLI slice checks the file-name <-> assembly mapping on written files; reused-object leg (second export from the same indexed input, Pretext scaffolds tagged after their tags were listed) against fresh objects",
        "For every piece of every designed tagging (single haplotype, Target mode, two haplotypes, Primary) whose core holds contig bases, the destination observed in the real outputs is compared with the design; no exception is tolerated on these consistent designs.",
        "Only consistent taggings are generated; destination judged on core bases as in C02.",
        "3-C09",
    ),
    "C10": (
        "exploration",
        "output self-consistency monitor (unique names, numbering without holes, non-increasing sizes, write order, chromosome.list / chr_report CSV lines from the real AssemblyStats) + designed names (name tags, unlocs under their chromosome, homologues sharing a number); the result asked for a second time from the same object; CLI leg: a chromosome list file with the right lines beside every curated assembly file that has chromosomes (monitor on write_chr_csv_files), also when re-running over longer files of the same names",
        "Each completed designed tagging is checked for the naming and ordering rules of the statement; a separate 'vanishing chromosome' shard reproduces known finding D9 and matches only that mechanism signature there.",
        "Input names outside the generated namespaces; haplotig order under either length reading; hole checks only when every unloc/haplotig piece holds contig bases.",
        "3-C10",
    ),
    "C11": (
        "exploration",
        "independent junction counter over contig ends vs AssemblyStats; metamorphic recomputation of the real statistics with whole scaffolds reversed; CLI slice: log line and info.yaml vs counts recomputed from the written files, with the report of an earlier run in place beforehand and contig-level assemblies under unedited maps; prefix assigned again between remap and fuse; three- and four-haplotype Primary maps (fragments recounted from the files)",
        "On every completed run reported cuts/breaks/joins are compared with an independent count; the real make_stats is re-run with random whole scaffolds of input and/or output reversed and must not change; the CLI's log line, yaml totals and haplotig-removal count are compared with the files it wrote.",
        "Strands +1/-1 only.",
        "3-C11",
    ),
    "C03": (
        "exploration",
        "post-condition on the real FastaStream.write_scaffold (tee captures the bytes of each call) vs an in-memory FASTA model; G-fasta x G-sub x buffer x line-length workload; CLI slice comparing each written .fa/.agp pair with the input FASTA (one- and two-haplotype maps, sub-texel pieces set aside as haplotigs, re-runs over longer files of the same names)",
        "Every record written by every write_scaffold call of the workloads (direct streams and pretext-to-asm runs with FASTA in/out) is compared byte-for-byte with the rows applied to the input records by an independent model; record order, uniqueness and AGP object lengths are checked on the CLI pairs.",
        "Input FASTA in the C04 domain; '?' rows stream forward; trusts vf.ref.fasta_ref and vf.ref.agp_ref.",
        "3-C03",
    ),
    "C04": (
        "exploration",
        "reference indexer (whole-file in-memory model) vs index_fasta_file / FastaIndex random access / .fai+.agp cache reload / stream-back, over generated FASTA byte strings x buffer sizes; all (a,b) intervals on records <=40 residues",
        "Each generated FASTA (LF/CRLF, final newline or not, widths 1..80, IUPAC/other symbols, N-runs across line and buffer boundaries) is indexed with a buffer from 1 up and compared with the reference quintuples, run tiling, random-access slices and masked round trip; malformed files must raise.",
        "Records >=1 residue, no blank lines; derived gap type not judged.",
        "3-C04",
    ),
    "C13": (
        "exploration",
        "differential observer over buffer sizes (index, derived rows, streamed bytes must coincide) + I/O-size monitor (read sizes on the FASTA handle, chunk sizes of the real chunk iterators) + tracemalloc peak bound on sequences/fragments/gaps 300-400 buffers long (also behind short records of another line width)",
        "For every generated (file, assembly) pair the results under 10-15 buffer sizes from 1 up are compared; every read and chunk observed is <= buffer; traced peak memory while indexing/streaming 300-400-buffer sequences stays below 6*buffer+64KiB (a whole-sequence accumulation would be >= 300*buffer).",
        "'At no time' is restated as measured sizes and traced peak on the executions run; memory outside the Python allocator is not seen (no native code in the repo).",
        "3-C13",
    ),
    "C14": (
        "exploration",
        "icontract post-conditions on the real Scaffold.reverse, reverse_complement and OverlapResult.to_scaffold (fire in every workload), exhaustive 256-byte table, streaming law stream(S.reverse()) == revcomp(stream(S)) over G-fasta x G-sub x buffers, in-situ reversals of the remap pipeline incl. unknown-orientation baits; both orientations in one write_assembly, another gap character from the same index",
        "Every reversal / reverse-complement executed by the workloads is compared with an independent row-mirror and an IUPAC table derived from base sets; the stream law is decided on real streamed bytes.",
        "For '?' rows only the involution and mirrored-position laws are demanded (DESIGN 3-C14).",
        "3-C14",
    ),
    "C15": (
        "fault_enumeration",
        "process-level controlled scheduler + crash injector over real forked auto_load processes (yield points: sys.monitoring LINE events of the cache functions, raw FileIO write/read/close = flush boundaries, os.stat/replace/unlink); history driver on four mtime clocks (logical 10 s steps, sub-second steps, FASTA mtimes ahead of the wall clock, 10-minute steps across the end of daylight saving with TZ set) incl. objects kept alive across edits and loaded a second time; crash scenario on a FASTA just written by pretext-to-asm with its side files; in every other crash shard all processes report one process id, and after a kill that leaves a temporary file the FASTA is replaced by a much shorter one and loaded twice; oracle = reference index of the FASTA's current bytes or a loud failure",
        "Crash points: the indexing process is killed at EVERY yield point of each scenario (cold, stale, equal mtime, .fai or .agp deleted, fresh; 2-record and 800-record files with interior flush boundaries) and a fresh load (and a second one after recovery) is judged per distinct on-disk state. Interleavings: every preemption position for 2 processes/1 preemption, 3 processes/1 preemption, 3 processes/2 preemptions at file operations (quick) plus 2 processes/2 preemptions (thorough) and random-priority schedules. Histories: all sequences up to length 3 (quick) / 4 (thorough) over the property's alphabet plus random ones to length 10, also with the FASTA reached through a symbolic link.",
        "Process crashes (completed writes persist, user-space buffers lost, no torn write); FASTA not edited while being indexed; bounds as stated; scheduling granularity = statements of tola/fasta/index.py cache functions + raw file operations.",
        "3-C15",
    ),
    "C16": (
        "exploration",
        "audit hook (sys.addaudithook: open flags / rename / remove / truncate on pre-existing output paths) around the real CLI in process + post-run bytes/inode/mtime comparison, exit status and error text; hostile legs (symlinked / dangling / empty pre-existing paths, a competitor creating the file just before the open, injected from the audit hook); strace on the console entry point as independent observer; --clobber leg vs reference run; two invocations in one process under different output names; runs at --log-level ERROR; logging already configured by the caller",
        "For each generated case the output file set is fixed by a reference run; every non-empty subset (<=6 files) or singletons+full+sampled subsets is pre-created with sentinels and the CLI run with --no-clobber under the monitors, over FASTA/AGP/TPF output, log on/off, single- and multi-assembly designs.",
        "The FASTA index cache is not an output file; 'completely rewritten' = byte equality with the reference run.",
        "3-C16",
    ),
    "C17": (
        "exploration",
        "differential observer: byte equality of all output files between a reference run and runs differing in one axis (PYTHONHASHSEED subprocesses, cwd, stream buffer, cache cold/warm, earlier AND later invocations in the same process, other content at the same path earlier in the process, relative paths from another directory with out-of-date caches, fresh interpreter with and without -O); tag-noise cases (several special tags per scaffold, pairs of set-aside tags on one piece) under 6-12 hash seeds; FASTA/AGP/TPF input leg; asm-format (hash seeds, re-runs, working directory, AGP vs TPF input with blank lines, second of two files); the 12 specimens",
        "Each generated case (tag-rich designs incl. two haplotypes) and each specimen is run along every axis and all files compared byte for byte.",
        "Same output directory for all runs of a case, so absolute paths in logs coincide by construction.",
        "3-C17",
    ),
    "C18": (
        "exploration",
        "shadow-state monitor on every OverlapResult born from a real lookup; invariant re-derived from rows vs source scaffold after each mutating method (icontract post-conditions + snapshots for the prediction law); direct random op sequences + in-situ remap; results born from an edited scaffold indexed again",
        "After every discard/trim operation on every tracked overlap result (random operation sequences and the sequences the remap pipeline really applies) span, contiguity, terminal-gap and derived-figure invariants are recomputed independently; holds on the observed states only.",
        "Objects are tracked only when born from find_overlaps; strands +1/-1; a sequence ends at the first raising operation.",
        "3-C18",
    ),
    "C19": (
        "exploration",
        "icontract post-conditions on Fragment.overlaps/overlap_length/abuts/gap_between vs interval arithmetic (exhaustive [0,7]^2 + random to 1e12 and beyond 2**53, judged against the integers given); O(n^2) reference vs find_overlapping_fragments (assemblies with base-pair to chromosome-sized pieces) and vs parsed stderr of asm-format --qc-overlaps",
        "Every predicate call made by the workloads is compared with closed-interval set semantics, mutual consistency is asserted per pair, and the scan / CLI report is compared pair-for-pair with a quadratic reference on random assemblies.",
        "Closed 1-based integer intervals; fragment occurrences identified by (scaffold,row).",
        "3-C19",
    ),
    "C20": (
        "exploration",
        "contract (never raises, alternating str/int) on the real Assembly.name_natural_key for every key computed; permutation, numeric, nematode-numeral, unloc and rank laws on scaffolds_sorted_by_name / smart_sort_scaffolds over seeded name sets (ranks 0-3, larger and negative); CLI leg: monitor on pretext_to_asm.name_assemblies snapshots (rank, name) of every assembly handed to the writer and the object order of every written AGP file must be a concatenation of those sorted assemblies; every third case also without --output: the printed listing vs the assemblies handed to write_assembly",
        "Seeded name sets (G-names incl. I/V/X runs, leading zeros, unloc suffixes) are sorted from several permutations; totality, permutation-invariance of the key sequence and the documented orderings are asserted on each.",
        "ASCII names < 60 chars; unloc law for chromosome names none of which is a digit-extended prefix of another; an all_haplotigs file is several sorted assemblies one after another.",
        "3-C20",
    ),
}

ALL = [f"C{i:02d}" for i in range(1, 21)]


def main():
    props = [json.loads(l) for l in (V / "properties.jsonl").read_text().splitlines() if l.strip()]
    ids = [p["id"] for p in props]
    assert ids == ALL, ids
    checks = []
    for pid in ids:
        if pid not in CHECKS:
            continue
        cat, tech, text, note, ref = CHECKS[pid]
        checks.append(
            {
                "property_id": pid,
                "quick_cmd": f"./check {pid} --tier quick",
                "thorough_cmd": f"./check {pid} --tier thorough",
                "evidence_file": f"evidence/{pid}.json",
                "replay_cmd_template": f"./check {pid} --replay {{path}}",
                "engine": "vf",
                "level_claimed": {"category": cat, "text": text, "design_ref": f"DESIGN.md section {ref}"},
                "level_note": note,
                "technique": tech,
            }
        )
    na = [
        {"property_id": pid, "reason": "check not built yet in this session (planned, see DESIGN.md section 8); not a limit of the technique"}
        for pid in ids
        if pid not in CHECKS
    ]
    src_commits = []
    src_commits = []
    man = {
        "version": 1,
        "setup_cmd": "/venv/bin/python -m pip install -q --no-index --find-links /opt/veriftools/wheels --target /verif/.deps icontract && /venv/bin/python -m compileall -q vf",
        "hooks": {
            "guard": "TOLA_AGP_TPF_UTILS_VERIF",
            "enable": "no source hooks: all monitors are attached from the harness (icontract decorators on the imported classes, sys.monitoring, sys.addaudithook, wrapped file objects, strace); checks import /repo/src of the working tree at run time and export TOLA_AGP_TPF_UTILS_VERIF=1 to child interpreters",
            "baseline_off_cmd": "cd /repo && env -u TOLA_AGP_TPF_UTILS_VERIF /venv/bin/python -m pytest -ra -q -p no:cacheprovider --timeout=900 --continue-on-collection-errors",
            "source_commits": src_commits,
            "add_only": True,
        },
        "engines": [
            {
                "name": "vf",
                "path": "vf/",
                "serves_properties": [c["property_id"] for c in checks],
                "kind_free_text": "runtime monitoring: seeded hostile workloads drive the real code in worker subprocesses while contracts, shadow state, audit hooks, I/O proxies and a process scheduler observe; independent reference models decide",
            }
        ],
        "checks": checks,
        "not_applicable": na,
        "notes": "Exit codes: 0 held on everything observed; 1 + 'VIOLATION property=<id> replay=<path>' violation; 2 + 'INCONCLUSIVE ...' when a worker died, a watchdog fired or a reach-gate was not met (never folded into the other two; the one exception - exactly one shard of at least eight aborted by an error of the harness itself while every reach gate is met and nothing is violated - exits 0 with a NOTE line and is recorded in the evidence file, DESIGN section 6). VERIF_SEED seeds every generator; VERIF_REPO can point the checks at another checkout (default /repo).",
    }
    (V / "MANIFEST.json").write_text(json.dumps(man, indent=1) + "\n")
    try:
        subprocess.run(
            ["python3-vt", "-c", "import json,jsonschema,sys;jsonschema.validate(json.load(open('MANIFEST.json')),json.load(open('/root/.vp/MANIFEST.schema.json')));print('MANIFEST valid,',len(json.load(open('MANIFEST.json'))['checks']),'checks')"],
            cwd=V, check=True,
        )
    except FileNotFoundError:
        pass


if __name__ == "__main__":
    main()
