#!/bin/bash
# The repository's own tests with the C06/C12/C14/C18/C19/C20 contracts attached.
REPO=${VERIF_REPO:-/repo}
V=$(cd "$(dirname "$0")/.." && pwd)
cd "$REPO" && PYTHONPATH=$V:$V/.deps:$REPO/src PYTHONDONTWRITEBYTECODE=1 /venv/bin/python -m pytest -q -p no:cacheprovider -p vf.pytest_plugin "$@"
