#!/usr/bin/env python3
"""Confirm and file a property-breaking change delivered by an independent sub-agent.

usage:
  tools/seeded.py ingest <prop> <k> <dir-with-patch{k}.diff,demo{k}.py,notes{k}.md>   confirm + copy to seeded/<prop>-<k>/
  tools/seeded.py run [--tier quick] [--all-checks] [--in-repo] [id ...]                run checks against filed seeds

Confirmation (all on a scratch copy of /repo HEAD, never in /repo):
  clean copy : the 64 tests pass, demo exits 0
  patched    : the 64 tests pass, demo exits 1
`run` applies each patch to a scratch copy (VERIF_REPO) or, with --in-repo, to /repo itself
(git apply ... ; checks ; git checkout -- .) one at a time.
"""
import json
import os
import shutil
import subprocess
import sys
import time
from pathlib import Path

V = Path(__file__).resolve().parent.parent
REPO = Path("/repo")
BASE = Path(os.environ.get("VERIF_SEED_DIR", "/dev/shm/vf-seeded"))
SEEDED = V / "seeded"


def scratch(name):
    d = BASE / name
    if d.exists():
        shutil.rmtree(d)
    d.mkdir(parents=True)
    subprocess.run(f"git -C {REPO} archive HEAD src tests pyproject.toml | tar -x -C {d}", shell=True, check=True)
    return d


def run_tests(d):
    env = {**os.environ, "PYTHONPATH": str(d / "src"), "PYTHONDONTWRITEBYTECODE": "1"}
    cp = subprocess.run(["/venv/bin/python", "-m", "pytest", "-q", "-p", "no:cacheprovider", "tests"], cwd=d, env=env, stdout=subprocess.PIPE, stderr=subprocess.STDOUT, timeout=1200)
    tail = cp.stdout.decode().strip().splitlines()[-1] if cp.stdout.strip() else ""
    return cp.returncode == 0 and "64 passed" in tail, tail


def run_demo(d, demo):
    env = {**os.environ, "PYTHONPATH": str(d / "src"), "SEED_SRC": str(d / "src"), "PYTHONDONTWRITEBYTECODE": "1"}
    cp = subprocess.run(["/venv/bin/python", str(demo)], cwd=d, env=env, stdout=subprocess.PIPE, stderr=subprocess.STDOUT, timeout=1200)
    return cp.returncode, cp.stdout.decode()[-600:]


def apply_patch(d, patch):
    cp = subprocess.run(["patch", "-p1", "--no-backup-if-mismatch", "-i", str(patch)], cwd=d, stdout=subprocess.PIPE, stderr=subprocess.STDOUT)
    return cp.returncode == 0, cp.stdout.decode()[-400:]


def ingest(prop, k, src, as_k=None):
    src = Path(src)
    patch, demo, notes = src / f"patch{k}.diff", src / f"demo{k}.py", src / f"notes{k}.md"
    sid = f"{prop}-{as_k or k}"
    d = scratch(f"ingest-{sid}")
    shutil.copy(demo, d / "demo.py")
    rep = {"property": prop, "id": sid}
    ok_t, tail = run_tests(d)
    rc0, out0 = run_demo(d, d / "demo.py")
    rep["clean"] = {"tests": tail, "demo_exit": rc0}
    ok_p, pout = apply_patch(d, patch)
    if not ok_p:
        print(f"{sid}: patch does not apply: {pout}")
        return False
    ok_t2, tail2 = run_tests(d)
    rc1, out1 = run_demo(d, d / "demo.py")
    rep["patched"] = {"tests": tail2, "demo_exit": rc1, "demo_output": out1[-300:]}
    good = ok_t and rc0 == 0 and ok_t2 and rc1 == 1
    print(f"{sid}: clean tests={ok_t} demo={rc0} | patched tests={ok_t2} demo={rc1} -> {'CONFIRMED' if good else 'REJECTED'}")
    if not good:
        print("   clean demo:", out0[-200:].replace("\n", " | "))
        print("   patched demo:", out1[-300:].replace("\n", " | "), tail2)
        shutil.rmtree(d, ignore_errors=True)
        return False
    out = SEEDED / sid
    out.mkdir(parents=True, exist_ok=True)
    shutil.copy(patch, out / "patch.diff")
    shutil.copy(demo, out / "demo.py")
    nt = notes.read_text() if notes.exists() else ""
    (out / "notes.md").write_text(nt)
    files = sorted({l.split(" b/")[-1].strip() for l in patch.read_text().splitlines() if l.startswith("diff --git")})
    meta = {
        "id": sid,
        "property": prop,
        "source": "independent sub-agent given only the property text and a scratch worktree",
        "files_touched": files,
        "needs_to_manifest": nt.strip()[:1500],
        "confirmed": {
            "how": "scratch copy of /repo HEAD (git archive): 64 tests pass and demo.py exits 0; after `patch -p1 < patch.diff`: 64 tests pass and demo.py exits 1",
            "clean": rep["clean"],
            "patched": rep["patched"],
            "repo_head": subprocess.run(["git", "-C", str(REPO), "log", "--format=%h", "-1"], stdout=subprocess.PIPE).stdout.decode().strip(),
        },
        "run_demo": "SEED_SRC=<checkout>/src PYTHONPATH=<checkout>/src /venv/bin/python demo.py",
        "checks": {},
    }
    (out / "meta.json").write_text(json.dumps(meta, indent=1))
    shutil.rmtree(d, ignore_errors=True)
    return True


def run_check(prop, tier, repo_dir, tag):
    env = {**os.environ, "VERIF_REPO": str(repo_dir), "VERIF_EVIDENCE_DIR": str(BASE / f"ev-{tag}"), "VERIF_REPLAY_DIR": str(BASE / f"rp-{tag}")}
    t0 = time.time()
    cp = subprocess.run([str(V / "check"), prop, "--tier", tier], cwd=V, env=env, stdout=subprocess.PIPE, stderr=subprocess.STDOUT, timeout=14400)
    out = cp.stdout.decode()
    sigs = [l.strip()[:160] for l in out.splitlines() if l.strip().startswith("signature=")]
    rc = cp.returncode
    if rc == 1 and f"VIOLATION property={prop}" not in out:
        rc = 3  # exit 1 without a VIOLATION line is a crash of the machinery, not a catch
    return rc, sigs, round(time.time() - t0, 1)


def run(args):
    tier = "thorough" if "--thorough" in args else "quick"
    allchecks = "--all-checks" in args
    in_repo = "--in-repo" in args
    ids = [a for a in args if not a.startswith("--")]
    seeds = sorted(p for p in SEEDED.iterdir() if p.is_dir() and (not ids or any(i in p.name for i in ids)))
    summary = []
    for sd in seeds:
        meta = json.loads((sd / "meta.json").read_text())
        props = [f"C{i:02d}" for i in range(1, 21)] if allchecks else [meta["property"]]
        if in_repo:
            st = subprocess.run(["git", "-C", str(REPO), "status", "--porcelain"], stdout=subprocess.PIPE).stdout.decode().strip()
            if st:
                raise SystemExit(f"/repo is not clean: {st}")
            subprocess.run(["git", "-C", str(REPO), "apply", str(sd / "patch.diff")], check=True)
            target = REPO
        else:
            target = scratch(f"run-{sd.name}")
            ok, msg = apply_patch(target, sd / "patch.diff")
            if not ok:
                print(f"{sd.name}: patch no longer applies: {msg}")
                continue
        try:
            for prop in props:
                rc, sigs, dt = run_check(prop, tier, target, sd.name)
                status = {0: "MISSED", 1: "CAUGHT", 2: "INCONCLUSIVE"}.get(rc, f"rc={rc}")
                if prop == meta["property"] or rc != 0:
                    print(f"{sd.name:<10} {prop} {tier:<8} {status:<12} {dt:6.1f}s {sigs[:2]}")
                meta.setdefault("checks", {})[f"{prop}:{tier}"] = {"result": status, "signatures": sigs[:4], "wall_s": dt, "where": "/repo (git apply, then git checkout -- .)" if in_repo else "scratch copy via VERIF_REPO"}
                if prop == meta["property"]:
                    summary.append((sd.name, status))
        finally:
            if in_repo:
                subprocess.run(["git", "-C", str(REPO), "checkout", "--", "."], check=True)
            else:
                shutil.rmtree(target, ignore_errors=True)
        (sd / "meta.json").write_text(json.dumps(meta, indent=1))
    shutil.rmtree(BASE, ignore_errors=True)
    print("summary:", ", ".join(f"{a}={b}" for a, b in summary))


def table():
    rows = ["| seed | files touched | what it needs to manifest (agent's note, abridged) | first | now (quick) | signature reported |", "|---|---|---|---|---|---|"]
    for sd in sorted(p for p in SEEDED.iterdir() if p.is_dir()):
        m = json.loads((sd / "meta.json").read_text())
        own = m.get("checks", {}).get(f"{m['property']}:quick", {})
        need = " ".join(l.strip("-* ") for l in m.get("needs_to_manifest", "").splitlines() if l.strip() and not l.startswith("#"))
        need = need.replace("|", "/")[:230]
        sig = (own.get("signatures") or [""])[0].replace("signature=", "").split(" count=")[0][:80]
        files = ", ".join(f.replace("src/tola/", "") for f in m["files_touched"])
        now = own.get("result", "?")
        if now != "CAUGHT":
            others = sorted(k.split(":")[0] for k, v in m.get("checks", {}).items() if v.get("result") == "CAUGHT" and k.endswith(":quick"))
            if others:
                now += f" (caught by {', '.join(others)})"
                sig = (m["checks"][others[0] + ":quick"].get("signatures") or [""])[0].replace("signature=", "").split(" count=")[0][:80]
        rows.append(f"| {m['id']} | {files} | {need} | {m.get('first_quick_result', own.get('result', '?'))} | {now} | `{sig}` |")
    txt = "\n".join(rows)
    d = V / "DESIGN.md"
    s = d.read_text()
    a, b = "<!-- seeded-table-begin -->", "<!-- seeded-table-end -->"
    if "SEEDED_TABLE_PLACEHOLDER" in s:
        s = s.replace("SEEDED_TABLE_PLACEHOLDER", f"{a}\n{txt}\n{b}")
    else:
        s = s[: s.index(a)] + f"{a}\n{txt}\n" + s[s.index(b):]
    d.write_text(s)
    print(f"{len(rows) - 2} seeds in table")


if __name__ == "__main__":
    BASE.mkdir(parents=True, exist_ok=True)
    if sys.argv[1] == "table":
        table()
        sys.exit(0)
    if sys.argv[1] == "ingest":
        sys.exit(0 if ingest(sys.argv[2], sys.argv[3], sys.argv[4], sys.argv[5] if len(sys.argv) > 5 else None) else 1)
    run(sys.argv[2:])
