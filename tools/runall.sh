#!/bin/bash
# usage: tools/runall.sh [tier] [seed...]   -- runs every check, prints one line per check
tier=${1:-quick}; shift
seeds=${@:-0}
cd "$(dirname "$0")/.."
for s in $seeds; do
  for i in $(seq -w 1 20); do
    id=C$i
    out=$(VERIF_SEED=$s VERIF_EVIDENCE_DIR=${EVDIR:-} ./check $id --tier $tier 2>&1); rc=$?
    echo "seed=$s $id rc=$rc $(echo "$out" | grep -E '^\[C' | sed 's/.*evaluations/evaluations/')"
    if [ $rc -ne 0 ]; then echo "$out" | grep -E 'VIOLATION|INCONCLUSIVE|signature=' | head -5 | cut -c1-300; fi
  done
done
