#!/usr/bin/env python3
"""Which lines of the whole package do the checks execute (in the worker processes)?

usage: tools/reach.py [tier]      runs every check with VERIF_FULLCOVER and prints, per function of
src/tola, the statement lines that no worker executed.  Lines executed only in forked / spawned
children (C15's scheduled processes, CLI runs with inproc=False) are not seen: this is a lower bound.
"""
import json
import os
import subprocess
import sys
import types
from pathlib import Path

V = Path(__file__).resolve().parent.parent
REPO = Path(os.environ.get("VERIF_REPO", "/repo"))
OUT = Path("/dev/shm/vf-reach")


def code_objects(code):
    yield code
    for c in code.co_consts:
        if isinstance(c, types.CodeType):
            yield from code_objects(c)


def main():
    tier = sys.argv[1] if len(sys.argv) > 1 else "quick"
    if OUT.exists():
        subprocess.run(["rm", "-rf", str(OUT)])
    OUT.mkdir(parents=True)
    env = {**os.environ, "VERIF_FULLCOVER": str(OUT), "VERIF_EVIDENCE_DIR": str(OUT / "ev"), "VERIF_REPLAY_DIR": str(OUT / "rp")}
    per_prop = {}
    for i in range(1, 21):
        pid = f"C{i:02d}"
        cp = subprocess.run([str(V / "check"), pid, "--tier", tier], cwd=V, env=env, stdout=subprocess.PIPE, stderr=subprocess.STDOUT)
        print(pid, "rc", cp.returncode, file=sys.stderr)
    hit = {}
    for f in OUT.glob("C*.json"):
        pid = f.name.split("-")[0]
        for fn, ln in json.loads(f.read_text()):
            hit.setdefault((fn, ln), set()).add(pid)
    root = REPO / "src" / "tola"
    tot = miss = 0
    report = []
    for py in sorted(root.rglob("*.py")):
        rel = str(py.relative_to(root))
        top = compile(py.read_text(), str(py), "exec")
        for code in code_objects(top):
            if code is top:
                continue
            lines = sorted({ln for _, _, ln in code.co_lines() if ln is not None and ln != code.co_firstlineno})
            un = [ln for ln in lines if (rel, ln) not in hit]
            tot += len(lines)
            miss += len(un)
            if un:
                report.append((rel, code.co_qualname, code.co_firstlineno, len(lines), un))
    for rel, q, first, n, un in report:
        print(f"{rel}:{first} {q}: {len(un)}/{n} lines never executed: {un}")
    print(f"TOTAL statement lines in functions: {tot}, never executed in a worker: {miss}")
    subprocess.run(["rm", "-rf", str(OUT)])


if __name__ == "__main__":
    main()
