"""Collector used by every worker, plain-data conversion of repo objects, fingerprints."""

import hashlib
import json
import random
import traceback
from collections import Counter


class Ctx:
    """Per-shard collector.  Everything in it is JSON-able."""

    MAX_VIOL = 40  # stored in full per shard (all are counted)
    MAX_SAMPLES = 3

    def __init__(self, prop, shard):
        self.prop = prop
        self.shard = shard
        self.counters = Counter()
        self.violations = []
        self.viol_count = 0
        self.viol_sigs = Counter()
        self.samples = []
        self.fingerprints = set()
        self.evaluations = 0
        self.notes = {}

    # -- counting -----------------------------------------------------------
    def count(self, key, n=1):
        self.counters[key] += n

    def case(self, n=1):
        self.evaluations += n

    def nontrivial(self, obj):
        """Register a non-trivial case by its canonical serialisation."""
        self.fingerprints.add(fingerprint(obj))

    def sample(self, obj, force=False):
        if force or len(self.samples) < self.MAX_SAMPLES:
            self.samples.append(obj)

    def note(self, key, value):
        self.notes.setdefault(key, value)

    # -- violations ---------------------------------------------------------
    def violation(self, sig, msg, case=None, extra=None):
        """sig: mechanism signature (stable, no numbers from the case);
        msg: human-readable witness; case: replayable case dict."""
        self.viol_count += 1
        self.viol_sigs[sig] += 1
        if self.viol_sigs[sig] <= 5 and len(self.violations) < self.MAX_VIOL:
            v = {"sig": sig, "msg": str(msg)[:4000], "case": case}
            if extra:
                v["extra"] = extra
            self.violations.append(v)

    def result(self):
        return {
            "prop": self.prop,
            "shard": self.shard,
            "counters": dict(self.counters),
            "violations": self.violations,
            "viol_count": self.viol_count,
            "viol_sigs": dict(self.viol_sigs),
            "samples": self.samples,
            "fingerprints": sorted(self.fingerprints),
            "evaluations": self.evaluations,
            "notes": self.notes,
        }


def fingerprint(obj):
    s = json.dumps(obj, sort_keys=True, default=str, separators=(",", ":"))
    return hashlib.sha1(s.encode()).hexdigest()[:16]


def rng_for(seed, *parts):
    """Deterministic RNG independent of PYTHONHASHSEED."""
    h = hashlib.sha256(repr((seed,) + parts).encode()).digest()
    return random.Random(int.from_bytes(h[:8], "big"))


def exc_site(e):
    """(type name, innermost function name in the repository) of an exception."""
    tb = traceback.extract_tb(e.__traceback__)
    fn = "?"
    for fr in tb:
        if "/tola/" in fr.filename:
            fn = fr.name
    return type(e).__name__, fn


# ---------------------------------------------------------------------------
# Plain-data representation
#   fragment row: ["F", name, start, end, strand, [tags...]]
#   gap row:      ["G", length, gap_type]
#   scaffold:     [name, [rows...]]
# ---------------------------------------------------------------------------

def is_frag(row):
    return row[0] == "F"


def row_len(row):
    return row[3] - row[2] + 1 if row[0] == "F" else row[1]


def scaffold_len(sc):
    return sum(row_len(r) for r in sc[1])


def dump_row(r):
    # duck-typed: Fragment has .name/.start, Gap has .gap_type
    if hasattr(r, "gap_type"):
        return ["G", r.length, r.gap_type]
    return ["F", r.name, r.start, r.end, r.strand, list(r.tags)]


def dump_scaffold(s):
    return [s.name, [dump_row(r) for r in s.rows]]


def dump_scaffolds(scs):
    return [dump_scaffold(s) for s in scs]


def dump_assemblies(out):
    """dict asm_key -> Assembly  ==>  [[key, [scaffold...]]...] in dict order."""
    return [[k, dump_scaffolds(a.scaffolds)] for k, a in out.items()]


def build_row(row):
    from tola.assembly.fragment import Fragment
    from tola.assembly.gap import Gap

    if row[0] == "G":
        return Gap(row[1], row[2])
    return Fragment(row[1], row[2], row[3], row[4], tuple(row[5]) if len(row) > 5 else ())


def build_scaffold(sc):
    from tola.assembly.scaffold import Scaffold

    return Scaffold(sc[0], [build_row(r) for r in sc[1]])


def build_scaffolds(scs):
    """The rows are handed to each Scaffold in ONE working list that is cleared and refilled for the next
    scaffold, as a caller reading a file scaffold by scaffold would: a Scaffold
    holds its own rows, not the caller's list."""
    from tola.assembly.scaffold import Scaffold

    buf = []
    out = []
    for s in scs:
        buf.clear()
        buf.extend(build_row(r) for r in s[1])
        out.append(Scaffold(s[0], buf))
    return out


def rows_with_pos(rows):
    """Yield (scaffold_start, scaffold_end, row) over plain rows."""
    p = 0
    for r in rows:
        ln = row_len(r)
        yield p + 1, p + ln, r
        p += ln


def fmt_row(r):
    if r[0] == "G":
        return f"Gap:{r[1]}:{r[2]}"
    s = {1: "+", -1: "-", 0: "?"}[r[4]]
    t = (" " + " ".join(r[5])) if len(r) > 5 and r[5] else ""
    return f"{r[1]}:{r[2]}-{r[3]}({s}){t}"


def fmt_scaffold(sc):
    return f"{sc[0]}: " + " | ".join(fmt_row(r) for r in sc[1])
