"""Environment plumbing: where the repository is, how child interpreters are started.

The repository is always imported from <REPO>/src of the *current working tree*
(REPO defaults to /repo; VERIF_REPO overrides it so that the same checks can be
pointed at a scratch worktree while testing the monitors themselves).
"""

import fcntl
import os
import subprocess
import sys
from pathlib import Path

VERIF = Path(__file__).resolve().parent.parent
REPO = Path(os.environ.get("VERIF_REPO", "/repo")).resolve()
SRC = REPO / "src"
DEPS = VERIF / ".deps"
WHEELS = Path("/opt/veriftools/wheels")
PYTHON = os.environ.get("VERIF_PYTHON", "/venv/bin/python")
GUARD = "TOLA_AGP_TPF_UTILS_VERIF"


def ensure_deps():
    """Make icontract importable from /verif/.deps (offline, idempotent)."""
    marker = DEPS / "icontract" / "__init__.py"
    if marker.exists():
        return
    DEPS.mkdir(exist_ok=True)
    lock = open(DEPS / ".lock", "w")
    fcntl.flock(lock, fcntl.LOCK_EX)
    try:
        if marker.exists():
            return
        subprocess.run(
            [
                PYTHON, "-m", "pip", "install", "-q", "--no-index",
                "--find-links", str(WHEELS), "--target", str(DEPS), "icontract",
            ],
            check=True,
            stdout=subprocess.DEVNULL,
            stderr=subprocess.PIPE,
            env={**os.environ, "PIP_NO_INDEX": "1", "PIP_DISABLE_PIP_VERSION_CHECK": "1"},
        )
    finally:
        fcntl.flock(lock, fcntl.LOCK_UN)
        lock.close()


def child_env(extra=None, hashseed="0"):
    env = dict(os.environ)
    env["PYTHONPATH"] = os.pathsep.join([str(VERIF), str(DEPS), str(SRC)])
    env["PYTHONHASHSEED"] = str(hashseed)
    env["PYTHONDONTWRITEBYTECODE"] = "1"
    env[GUARD] = "1"
    env["VERIF_REPO"] = str(REPO)
    env.pop("COVERAGE_PROCESS_START", None)
    if extra:
        env.update(extra)
    return env


def activate():
    """Put the working tree's sources and .deps first on sys.path (in-process)."""
    for p in (str(DEPS), str(SRC)):
        if p in sys.path:
            sys.path.remove(p)
        sys.path.insert(0, p)
    # Make sure an already imported 'tola' from elsewhere is not reused
    mod = sys.modules.get("tola")
    if mod is not None:
        paths = [str(x) for x in getattr(mod, "__path__", [])]
        if not any(p.startswith(str(SRC)) for p in paths):
            for k in [k for k in sys.modules if k == "tola" or k.startswith("tola.")]:
                del sys.modules[k]


def scratch_root():
    """Per-run scratch directory root (tmpfs if possible)."""
    base = os.environ.get("VERIF_SCRATCH")
    if base:
        return Path(base)
    for cand in ("/dev/shm", os.environ.get("TMPDIR", "/tmp")):
        if cand and os.path.isdir(cand) and os.access(cand, os.W_OK):
            return Path(cand)
    return Path("/tmp")
