"""Shard scheduler, verdicts, evidence, replay files, known findings."""

import importlib
import json
import os
import shutil
import subprocess
import sys
import tempfile
import time
from collections import Counter
from concurrent.futures import ThreadPoolExecutor
from pathlib import Path

from vf import env

EVIDENCE_DIR = Path(os.environ.get("VERIF_EVIDENCE_DIR") or env.VERIF / "evidence")
REPLAY_DIR = Path(os.environ.get("VERIF_REPLAY_DIR") or env.VERIF / "replays")
FINDINGS = env.VERIF / "known_findings.json"


def load_findings(prop):
    if not FINDINGS.exists():
        return []
    data = json.loads(FINDINGS.read_text())
    return [f for f in data.get("findings", []) if f.get("property") == prop]


def _run_shard(prop, shard, workdir, idx, timeout):
    sf = workdir / f"shard{idx}.json"
    of = workdir / f"out{idx}.json"
    sf.write_text(json.dumps(shard))
    scratch = workdir / f"scratch{idx}"
    scratch.mkdir()
    cmd = [env.PYTHON, "-m", "vf.worker", prop, str(sf), str(of)]
    t0 = time.time()
    try:
        cp = subprocess.run(
            cmd,
            cwd=str(scratch),
            env=env.child_env({"VERIF_SHARD_SCRATCH": str(scratch)}, hashseed=shard.get("hashseed", "0")),
            stdout=subprocess.PIPE,
            stderr=subprocess.PIPE,
            timeout=timeout,
        )
    except subprocess.TimeoutExpired:
        return {"status": "timeout", "shard": shard, "error": f"watchdog {timeout}s", "wall_s": time.time() - t0}
    finally:
        shutil.rmtree(scratch, ignore_errors=True)
    if not of.exists():
        return {
            "status": "died",
            "shard": shard,
            "error": f"exit={cp.returncode} stderr={cp.stderr.decode(errors='replace')[-3000:]}",
            "wall_s": time.time() - t0,
        }
    res = json.loads(of.read_text())
    of.unlink()
    return res


def run_property(prop, tier, seed, replay_file=None):
    env.ensure_deps()
    sys.path.insert(0, str(env.VERIF))
    env.activate()
    mod = importlib.import_module(f"vf.props.{prop.lower()}")
    t0 = time.time()
    if replay_file:
        rp = json.loads(Path(replay_file).read_text())
        shards = [{"replay": rp["case"], "seed": rp.get("seed", seed), "tier": tier}]
    else:
        shards = mod.plan(tier, seed)
        for i, s in enumerate(shards):
            s.setdefault("seed", seed)
            s.setdefault("tier", tier)
            s.setdefault("index", i)
    jobs = int(os.environ.get("VERIF_JOBS", str(min(16, os.cpu_count() or 1))))
    default_to = 900 if tier == "quick" else 7200
    workdir = Path(tempfile.mkdtemp(prefix=f"vf-{prop}-", dir=str(env.scratch_root())))
    try:
        with ThreadPoolExecutor(max_workers=jobs) as ex:
            futs = [
                ex.submit(_run_shard, prop, s, workdir, i, s.get("timeout", default_to))
                for i, s in enumerate(shards)
            ]
            results = [f.result() for f in futs]
    finally:
        shutil.rmtree(workdir, ignore_errors=True)

    # ---- merge -------------------------------------------------------------
    counters = Counter()
    violations = []
    viol_sigs = Counter()
    samples = []
    fps = set()
    evaluations = 0
    problems = []
    notes = {}
    for r in results:
        if r.get("status") != "ok":
            problems.append(f"{r.get('status')}: shard={json.dumps(r.get('shard'))[:200]} {str(r.get('error'))[-1500:]}")
            if r.get("status") in ("timeout", "died"):
                continue
        counters.update(r.get("counters", {}))
        violations.extend(r.get("violations", []))
        viol_sigs.update(r.get("viol_sigs", {}))
        for s in r.get("samples", []):
            if len(samples) < 5:
                samples.append(s)
        fps.update(r.get("fingerprints", []))
        evaluations += r.get("evaluations", 0)
        for k, v in r.get("notes", {}).items():
            notes.setdefault(k, v)

    cover = {}
    cover_err = set()
    for r in results:
        cv = r.get("cover") or {}
        cover_err.update(cv.get("errors", []))
        for spec, d in cv.get("functions", {}).items():
            c = cover.setdefault(spec, {"hit": set(), "lines": set()})
            c["hit"].update(d["hit"])
            c["lines"].update(d["lines"])
    unmet = []
    if not replay_file:
        for spec, c in cover.items():
            if not c["hit"]:
                unmet.append(f"anchored function {spec} was never executed by the workload")
        for e in sorted(cover_err):
            unmet.append(f"anchored function could not be resolved: {e}")
        if os.environ.get("VERIF_FULLCOVER"):
            unmet = []  # (tools/reach.py measures the whole package with its own tool id instead)
        unmet += list(mod.gates(counters, tier)) if hasattr(mod, "gates") else []
        if not samples:
            unmet.append("no sample case recorded")
        if len(fps) < 2:
            unmet.append("fewer than 2 distinct non-trivial cases")

    # ---- known findings ----------------------------------------------------
    findings = load_findings(prop)
    known = {f["signature"]: f for f in findings if f.get("status") == "known" and f.get("signature")}
    known_hits = Counter()
    new_viol = []
    for v in violations:
        if v["sig"] in known:
            continue
        new_viol.append(v)
    for sig, n in viol_sigs.items():
        if sig in known:
            known_hits[sig] += n
    n_new = sum(n for sig, n in viol_sigs.items() if sig not in known)

    # ---- replay files ------------------------------------------------------
    replay_paths = {}
    if new_viol:
        d = REPLAY_DIR / prop
        d.mkdir(parents=True, exist_ok=True)
        per_sig = Counter()
        for v in new_viol:
            per_sig[v["sig"]] += 1
            if per_sig[v["sig"]] > 3:
                continue
            name = f"{seed}-{len(replay_paths)}-{_slug(v['sig'])}.json"
            p = d / name
            p.write_text(json.dumps({"property": prop, "seed": seed, "tier": tier, **v}, indent=1, default=str))
            replay_paths.setdefault(v["sig"], p)

    wall = time.time() - t0
    # One shard out of many aborted by an error of the harness itself (not a timeout, not a dead worker): what it
    # had observed up to then is merged; when every reach gate is met all the same and nothing was violated, the
    # verdict rests on what WAS observed - said in so many words on stdout and in the evidence file.
    aborted = [r for r in results if r.get("status") != "ok"]
    tolerated = bool(problems) and not unmet and not n_new and len(aborted) == 1 and aborted[0].get("status") == "harness-error" and len(shards) >= 8 and not replay_file
    # ---- evidence ----------------------------------------------------------
    if not replay_file:
        cov = {
            "evaluations": evaluations,
            "distinct_nontrivial": len(fps),
            "rule": mod.RULE,
            "samples": samples,
            "counters": dict(sorted(counters.items())),
            "unmet_reach_gates": unmet,
            "shards": len(shards),
            "harness_problems": problems[:5],
            "violation_signatures": dict(viol_sigs),
            "known_finding_hits": dict(known_hits),
        }
        if notes:
            cov["notes"] = notes
        cov["anchored_code_reached"] = {
            spec: {"lines_executed": len(c["hit"] & c["lines"]) or len(c["hit"]), "lines_total": len(c["lines"]), "never_executed": sorted(c["lines"] - c["hit"])[:40]}
            for spec, c in sorted(cover.items())
        }
        if hasattr(mod, "summarize"):
            cov.update(mod.summarize(counters, tier))
        ev = {
            "property_id": prop,
            "tier": tier,
            "seed": seed,
            "level": mod.LEVEL,
            "coverage": cov,
            "assumptions": list(getattr(mod, "ASSUMPTIONS", [])),
            "wall_s": round(wall, 2),
            "violations": n_new,
            "verdict": "violated" if n_new else ("inconclusive" if ((problems and not tolerated) or unmet) else "held-on-observed"),
            "shards_aborted_by_harness_error": len(aborted),
            "repo": str(env.REPO),
        }
        EVIDENCE_DIR.mkdir(parents=True, exist_ok=True)
        (EVIDENCE_DIR / f"{prop}.json").write_text(json.dumps(ev, indent=1, default=str))

    # ---- report ------------------------------------------------------------
    for sig, n in known_hits.items():
        print(f"KNOWN-FINDING: property={prop} {known[sig]['what']} (signature={sig}, seen {n}x in this run)")
    print(
        f"[{prop}] tier={tier} seed={seed} shards={len(shards)} evaluations={evaluations} "
        f"distinct_nontrivial={len(fps)} violations={n_new} wall={wall:.1f}s"
    )
    if n_new:
        for sig, n in viol_sigs.items():
            if sig in known:
                continue
            p = replay_paths.get(sig)
            first = next((v for v in new_viol if v["sig"] == sig), None)
            print(f"  signature={sig} count={n}")
            if first:
                print("    " + "\n    ".join(l[:300] for l in first["msg"].split("\n")[:8]))
            print(f"VIOLATION property={prop} replay={p}")
        return 1
    if tolerated:
        print(f"NOTE property={prop} 1 of {len(shards)} shards was aborted by an error of the harness itself; every reach gate is met by what was observed, "
              f"on which the verdict rests: {problems[0][:600]}")
        return 0
    if problems or unmet:
        reason = "; ".join(problems[:2] + [f"unmet gate {u}" for u in unmet[:6]])
        print(f"INCONCLUSIVE property={prop} reason={reason[:3000]}")
        return 2
    return 0


def _slug(s):
    return "".join(c if c.isalnum() else "-" for c in s)[:60]
