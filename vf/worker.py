"""Worker process: imports the repository working tree, runs one shard of one property."""

import importlib
import json
import logging
import sys
import time
import traceback


def main():
    prop, shard_file, out_file = sys.argv[1:4]
    from vf import env

    env.activate()
    from vf.core import Ctx

    with open(shard_file) as fh:
        shard = json.load(fh)
    logging.disable(logging.CRITICAL) if not shard.get("keep_logging") else None
    ctx = Ctx(prop, shard)
    t0 = time.time()
    status = "ok"
    err = None
    cover = None
    try:
        mod = importlib.import_module(f"vf.props.{prop.lower()}")
        if shard.get("replay") is None:
            from vf.mon.cover import Coverage

            cover = Coverage(prop)
            cover.start()
        if shard.get("replay") is not None:
            mod.replay(shard["replay"], ctx)
        else:
            mod.run(shard, ctx)
    except BaseException as e:  # noqa: BLE001 - the harness itself failed
        status = "harness-error"
        err = "".join(traceback.format_exception(type(e), e, e.__traceback__))[-6000:]
    res = ctx.result()
    if cover is not None:
        try:
            cover.stop()
            res["cover"] = cover.result()
        except Exception as e:  # noqa: BLE001
            res["cover"] = {"functions": {}, "errors": [f"cover: {e}"]}
    res["status"] = status
    res["error"] = err
    res["wall_s"] = time.time() - t0
    with open(out_file, "w") as fh:
        json.dump(res, fh, default=str)


if __name__ == "__main__":
    main()
