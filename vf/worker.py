"""Worker process: imports the repository working tree, runs one shard of one property."""

import importlib
import json
import logging
import os
import sys
import time
import traceback


def main():
    prop, shard_file, out_file = sys.argv[1:4]
    from vf import env

    env.activate()
    from vf.core import Ctx

    with open(shard_file) as fh:
        shard = json.load(fh)
    logging.disable(logging.CRITICAL) if not shard.get("keep_logging") else None
    ctx = Ctx(prop, shard)
    t0 = time.time()
    status = "ok"
    err = None
    cover = None
    full = None
    if os.environ.get("VERIF_FULLCOVER"):
        # tools/reach.py: which lines of the whole package does this shard execute?
        full = set()
        mon = sys.monitoring
        root = os.path.join(str(env.REPO), "src", "tola")
        mon.use_tool_id(5, "vf-reach")

        def on_line(code, line, _full=full, _root=root, _dis=mon.DISABLE):
            if code.co_filename.startswith(_root):
                _full.add((code.co_filename[len(_root) + 1:], line))
            return _dis

        mon.register_callback(5, mon.events.LINE, on_line)
        mon.set_events(5, mon.events.LINE)
    try:
        mod = importlib.import_module(f"vf.props.{prop.lower()}")
        if shard.get("replay") is None:
            from vf.mon.cover import Coverage

            cover = Coverage(prop)
            if full is None:  # (the whole-package reach run uses its own tool id; two LINE tools on one code object lose events)
                cover.start()
        if shard.get("replay") is not None:
            mod.replay(shard["replay"], ctx)
        else:
            mod.run(shard, ctx)
            if os.environ.get("VERIF_SELFTEST_ABORT_SHARD") in (str(shard.get("index")), "all"):
                raise RuntimeError("self-test: harness error injected after the shard ran")
    except BaseException as e:  # noqa: BLE001 - the harness itself failed
        status = "harness-error"
        err = "".join(traceback.format_exception(type(e), e, e.__traceback__))[-6000:]
    res = ctx.result()
    if cover is not None:
        try:
            cover.stop()
            res["cover"] = cover.result()
        except Exception as e:  # noqa: BLE001
            res["cover"] = {"functions": {}, "errors": [f"cover: {e}"]}
    if full is not None:
        sys.monitoring.set_events(5, 0)
        with open(os.path.join(os.environ["VERIF_FULLCOVER"], f"{prop}-{shard.get('index', 0)}-{os.getpid()}.json"), "w") as fh:
            json.dump(sorted(full), fh)
    res["status"] = status
    res["error"] = err
    res["wall_s"] = time.time() - t0
    with open(out_file, "w") as fh:
        json.dump(res, fh, default=str)


if __name__ == "__main__":
    main()
