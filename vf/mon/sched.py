"""M4/M5: process-level controlled scheduler and crash injector for FastaIndex.auto_load.

A *process* is a real forked child running FastaIndex(path, buffer).auto_load().
Yield points (the child reports its location and blocks until the scheduler
sends a token, or is killed there):
  * sys.monitoring LINE events in tola/fasta/index.py, except a deny-list of
    per-residue hot paths (so new helpers in that file are scheduled too);
  * raw file operations on the cache files: the cache files are opened through
    an io.open wrapper that rebuilds TextIOWrapper(BufferedWriter(FileIO)) with
    a FileIO subclass whose write/readinto/readall/close are yield points, so
    *flush boundaries* are scheduled, not just Python statements;
  * os.stat / os.replace / os.rename / os.unlink / os.remove on the case's files.
"""

import io
import os
import pickle
import signal
import sys

DENY = {
    "index_fasta_file", "process_seq_buffer", "store_info", "sequence_bytes", "fwd_chunks", "rev_chunks",
    "get_gap_iter", "get_sequence_iter", "fai_row", "__init__", "__eq__", "__repr__", "<genexpr>", "get_info",
    "all_fasta_seq", "get_fasta_seq", "<module>", "FastaInfo", "FastaIndex", "IndexUsageError",
}
TOOL = 3


def result_of(fi):
    idx = [(n, i.length, i.file_offset, i.residues_per_line, i.max_line_length) for n, i in fi.index.items()]
    asm = [(s.name, [("F", r.name, r.start, r.end, r.strand) if not hasattr(r, "gap_type") else ("G", r.length) for r in s.rows]) for s in fi.assembly.scaffolds]
    return idx, asm


# every child reports this process id (None: its real one).  Two runs in two containers, or on two hosts that
# share the directory, or one after the other on a machine that recycles process ids, have the same pid.
FIXED_PID = None


def _child_main(path, buffer, req_w, go_r, res_w, scheduled):
    import tola.fasta.index as ix

    if FIXED_PID is not None:
        os.getpid = lambda: FIXED_PID

    events = {"written": [], "replaced": []}
    lines_run = set()
    base = str(path)
    cache_paths = {base + ".fai", base + ".agp"}

    def is_ours(p):
        try:
            s = os.fsdecode(p)
        except TypeError:
            return False
        return s == base or s.startswith(base + ".")

    state = {"aborting": False}

    def yp(loc):
        if not scheduled or state["aborting"]:
            return
        os.write(req_w, (loc + "\n").encode())
        tok = os.read(go_r, 1)
        if not tok:
            os._exit(3)
        if tok == b"x":
            # injected interruption *inside* the process: Ctrl-C at a statement, an I/O error at a file operation
            state["aborting"] = True
            if loc.startswith("raw:write") or loc.startswith("raw:close"):
                import errno

                raise OSError(errno.ENOSPC, "No space left on device (injected)")
            raise KeyboardInterrupt("injected")

    # -- raw layer ------------------------------------------------------------------
    def short(f):
        nm = f.name
        if isinstance(nm, int):
            try:
                nm = os.readlink(f"/proc/self/fd/{nm}")
            except OSError:
                nm = f"fd{nm}"
        return os.path.basename(os.fsdecode(nm))[-8:]

    class YFileIO(io.FileIO):
        def write(self, b):
            yp(f"raw:write:{short(self)}:{len(b)}")
            return super().write(b)

        def readinto(self, b):
            yp(f"raw:read:{short(self)}")
            return super().readinto(b)

        def readall(self):
            yp(f"raw:readall:{short(self)}")
            return super().readall()

        def close(self):
            if not self.closed:
                yp(f"raw:close:{short(self)}")
            return super().close()

    real_open = io.open

    def my_open(file, mode="r", buffering=-1, encoding=None, errors=None, newline=None, closefd=True, opener=None):
        if isinstance(file, int):
            # a descriptor obtained with os.open(): the same raw layer, on the file it refers to
            try:
                target = os.readlink(f"/proc/self/fd/{file}")
            except OSError:
                target = ""
            if is_ours(target) and target != base:
                writing = any(c in mode for c in "wax+")
                yp(f"raw:open:{os.path.basename(target)[-8:]}:{mode}")
                raw = YFileIO(file, mode.replace("b", "").replace("t", ""), closefd=closefd)
                if writing:
                    events["written"].append(target)
                buf = io.BufferedWriter(raw) if writing else io.BufferedReader(raw)
                return buf if "b" in mode else io.TextIOWrapper(buf, encoding=encoding, errors=errors, newline=newline)
        if not isinstance(file, int) and is_ours(file) and os.fsdecode(file) != base:
            name = os.fsdecode(file)
            writing = any(c in mode for c in "wax+")
            yp(f"raw:open:{os.path.basename(name)[-8:]}:{mode}")
            raw = YFileIO(name, mode.replace("b", "").replace("t", ""))
            if writing:
                events["written"].append(name)
            if "b" in mode:
                return io.BufferedWriter(raw) if writing else io.BufferedReader(raw)
            buf = io.BufferedWriter(raw) if writing else io.BufferedReader(raw)
            return io.TextIOWrapper(buf, encoding=encoding, errors=errors, newline=newline)
        return real_open(file, mode, buffering, encoding, errors, newline, closefd, opener)

    io.open = my_open
    import builtins

    builtins.open = my_open
    for fn_name in ("stat", "replace", "rename", "unlink", "remove", "open"):
        real = getattr(os, fn_name)

        def make(real, fn_name):
            def wrapped(*a, **k):
                if a and not isinstance(a[0], int) and is_ours(a[0]):
                    yp(f"os.{fn_name}:{os.path.basename(os.fsdecode(a[0]))[-8:]}")
                    if fn_name in ("replace", "rename") and len(a) > 1:
                        events["replaced"].append(os.fsdecode(a[1]))
                return real(*a, **k)

            return wrapped

        setattr(os, fn_name, make(real, fn_name))

    # -- statement layer ------------------------------------------------------------
    mon = sys.monitoring
    if scheduled:
        try:
            mon.use_tool_id(TOOL, "vf-sched")
        except ValueError:
            pass
        seen = {}

        def on_line(code, line):
            w = seen.get(code)
            if w is None:
                w = seen[code] = code.co_filename == ix.__file__ and code.co_name not in DENY
            if not w:
                return mon.DISABLE
            lines_run.add((code.co_name, line))
            yp(f"{code.co_name}:{line}")

        mon.register_callback(TOOL, mon.events.LINE, on_line)
        mon.set_events(TOOL, mon.events.LINE)
    try:
        from pathlib import Path

        fi = ix.FastaIndex(Path(path), buffer)
        yp("constructed")  # the object exists, nothing loaded yet
        fi.auto_load()
        idx, asm = result_of(fi)
        res = ("ok", idx, asm, sorted(set(events["written"]) | set(events["replaced"])), sorted(lines_run))
    except BaseException as e:  # noqa: BLE001 - a loud failure is an allowed outcome
        res = ("exc", type(e).__name__, str(e)[:200], sorted(set(events["written"]) | set(events["replaced"])), sorted(lines_run))
    if scheduled:
        mon.set_events(TOOL, 0)
    if scheduled:
        os.write(req_w, b"DONE\n")  # first: the parent then drains the (possibly large) result
    data = pickle.dumps(res)
    while data:
        n = os.write(res_w, data)
        data = data[n:]
    os.close(res_w)
    os._exit(0)


class Proc:
    """One forked auto_load process under scheduler control."""

    def __init__(self, label, path, buffer=50, scheduled=True):
        req_r, req_w = os.pipe()
        go_r, go_w = os.pipe()
        res_r, res_w = os.pipe()
        pid = os.fork()
        if pid == 0:
            try:
                os.close(req_r)
                os.close(go_w)
                os.close(res_r)
                _child_main(path, buffer, req_w, go_r, res_w, scheduled)
            finally:
                os._exit(4)
        os.close(req_w)
        os.close(go_r)
        os.close(res_w)
        self.pid, self.req, self.go, self.res, self.label = pid, req_r, go_w, res_r, label
        self.buf = b""
        self.done = False
        self.loc = None
        self.result = None
        self.steps = 0
        self.scheduled = scheduled
        if scheduled:
            self._advance()
        else:
            self._finish()

    def _readline(self):
        while b"\n" not in self.buf:
            c = os.read(self.req, 4096)
            if not c:
                return None
            self.buf += c
        line, self.buf = self.buf.split(b"\n", 1)
        return line.decode()

    def _finish(self):
        data = b""
        while True:
            c = os.read(self.res, 1 << 16)
            if not c:
                break
            data += c
        self.result = pickle.loads(data) if data else ("died",)
        if len(self.result) >= 5 and self.result[0] in ("ok", "exc"):
            from vf.mon import cover

            for name, line in self.result[4]:
                cover.add_external(name, line)
            self.result = self.result[:4]
        os.waitpid(self.pid, 0)
        self.done = True
        self.loc = None
        for fd in (self.req, self.go, self.res):
            os.close(fd)

    def _advance(self):
        msg = self._readline()
        if msg is None or msg == "DONE":
            self._finish()
        else:
            self.loc = msg

    def step(self):
        """let the process execute up to its next yield point"""
        self.steps += 1
        os.write(self.go, b"g")
        self._advance()

    def run_to_end(self, trace=None):
        while not self.done:
            if trace is not None:
                trace.append((self.label, self.loc))
            self.step()

    def interrupt(self):
        """make the process raise at its current yield point, then let it unwind to the end"""
        os.write(self.go, b"x")
        self._advance()
        self.run_to_end()

    def kill(self):
        os.kill(self.pid, signal.SIGKILL)
        os.waitpid(self.pid, 0)
        self.done = True
        self.result = ("killed", self.loc)
        for fd in (self.req, self.go, self.res):
            os.close(fd)


def run_segments(path, nproc, segments, buffer=50):
    """segments: list of (proc index, max steps or None).  After the list is exhausted the
    remaining processes run to completion in index order.  Returns (results, trace)."""
    procs = [Proc(chr(65 + i), path, buffer) for i in range(nproc)]
    trace = []
    for pi, n in segments:
        p = procs[pi]
        k = 0
        while not p.done and (n is None or k < n):
            trace.append((p.label, p.loc))
            p.step()
            k += 1
    for p in procs:
        p.run_to_end(trace)
    return [p.result for p in procs], trace


def run_priority(path, nproc, rng, buffer=50, switch_prob=0.05):
    procs = [Proc(chr(65 + i), path, buffer) for i in range(nproc)]
    trace = []
    cur = rng.randrange(nproc)
    while any(not p.done for p in procs):
        live = [i for i, p in enumerate(procs) if not p.done]
        if cur not in live or rng.random() < switch_prob:
            cur = rng.choice(live)
        p = procs[cur]
        trace.append((p.label, p.loc))
        p.step()
    return [p.result for p in procs], trace


def run_until_crash(path, k, buffer=50):
    """Run one process and SIGKILL it at its k-th yield point.  Returns (crashed?, loc, result)."""
    p = Proc("A", path, buffer)
    n = 0
    while not p.done and n < k:
        p.step()
        n += 1
    if p.done:
        return False, None, p.result
    loc = p.loc
    p.kill()
    return True, loc, None


def run_until_interrupt(path, k, buffer=50):
    """Run one process and make it raise (KeyboardInterrupt / ENOSPC) at its k-th yield point."""
    p = Proc("A", path, buffer)
    n = 0
    while not p.done and n < k:
        p.step()
        n += 1
    if p.done:
        return False, None, p.result
    loc = p.loc
    p.interrupt()
    return True, loc, p.result


def count_yield_points(path, buffer=50):
    p = Proc("A", path, buffer)
    locs = []
    while not p.done:
        locs.append(p.loc)
        p.step()
    return locs, p.result


def run_plain(path, buffer=50):
    """Unscheduled child (fresh interpreter state for FastaIndex): returns result tuple."""
    return Proc("F", path, buffer, scheduled=False).result
