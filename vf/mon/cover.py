"""M4-1: reach evidence.  Which lines of the functions a property is anchored in did the
workload of this worker actually execute?  sys.monitoring LINE events, enabled only on the
code objects of the anchored functions, each line disabled after its first hit (negligible cost).
An anchored function that no shard executed makes the verdict inconclusive."""

import importlib
import sys
import types

TOOL = 4

M = {
    "ba": "tola.assembly.build_assembly:BuildAssembly",
    "bu": "tola.assembly.build_utils",
    "or": "tola.assembly.overlap_result:OverlapResult",
    "ia": "tola.assembly.indexed_assembly:IndexedAssembly",
    "sc": "tola.assembly.scaffold:Scaffold",
    "fr": "tola.assembly.fragment:Fragment",
    "as": "tola.assembly.assembly:Assembly",
    "st": "tola.assembly.assembly_stats:AssemblyStats",
    "fi": "tola.fasta.index:FastaIndex",
    "ix": "tola.fasta.index",
    "fs": "tola.fasta.stream:FastaStream",
    "si": "tola.fasta.simple",
    "pa": "tola.assembly.parser",
    "fo": "tola.assembly.format",
    "p2a": "tola.assembly.scripts.pretext_to_asm",
    "af": "tola.assembly.scripts.asm_format",
}

ANCHORS = {
    "C01": ["ba.store_fragments_found", "ba.discard_overhanging_fragments", "bu.OverhangResolver.make_fixes", "ba.cut_fragments", "ba.qc_sub_fragments", "or.trim_fragment", "ba.add_missing_scaffolds_from_input"],
    "C02": ["ba.error_length", "or.trim_large_overhangs", "bu.OverhangResolver.make_fixes", "bu.OverhangPremise.improves", "ba.cut_fragments", "or.trim_fragment", "or.fragment_start_if_trimmed", "or.to_scaffold", "sc.reverse", "ba.scaffolds_fused_by_name"],
    "C03": ["fi.sequence_bytes", "fi.fwd_chunks", "fi.rev_chunks", "fi.get_gap_iter", "si.revcomp_bytes_io", "fs.write_scaffold", "p2a.write_assembly"],
    "C04": ["ix.index_fasta_file", "ix.index_fasta_file.process_seq_buffer", "ix.index_fasta_file.store_info", "fi.sequence_bytes"],
    "C05": ["pa.parse_agp", "pa.parse_tpf", "fo.format_agp", "fo.format_tpf"],
    "C06": ["fo.format_agp", "sc.length"],
    "C07": ["ba.scaffolds_fused_by_name", "sc.append_scaffold", "ba.add_missing_scaffolds_from_input", "ia.find_overlaps", "or.discard_start", "or.discard_end"],
    "C08": ["ia.find_overlaps", "or.trim_large_overhangs", "bu.ScaffoldNamer.make_scaffold_name", "ba.add_missing_scaffolds_from_input", "st.make_stats"],
    "C09": ["bu.ScaffoldNamer.label_scaffold", "bu.ScaffoldNamer.make_scaffold_name", "bu.ScaffoldNamer.haplotype_from_first_row_name", "bu.ScaffoldNamer.get_set_haplotype", "ba.scaffolds_fused_by_name", "ba.assemblies_with_scaffolds_fused", "ba.add_missing_scaffolds_from_input", "p2a.name_assemblies"],
    "C10": ["bu.ScaffoldNamer.make_scaffold_name", "bu.ScaffoldNamer.label_scaffold", "bu.ScaffoldNamer.haplotig_name", "bu.ScaffoldNamer.unloc_name", "bu.ScaffoldNamer.rename_by_size", "bu.ChrNamer.build_groups", "bu.ChrNamer.name_chromosomes", "bu.ChrGroup.name_chromosome", "as.smart_sort_scaffolds", "as.name_natural_key", "st.chromosome_name_csv", "st.chromosomes_report_csv"],
    "C11": ["fr.junction_tuple", "sc.fragment_junction_set", "as.fragment_junction_set", "as.fragment_junctions_by_asm_prefix", "st.make_stats", "ba.cut_fragments", "p2a.write_info_yaml"],
    "C12": ["ia.add_scaffold", "ia.find_overlaps"],
    "C13": ["ix.index_fasta_file", "ix.index_fasta_file.process_seq_buffer", "fi.fwd_chunks", "fi.rev_chunks", "fi.get_gap_iter", "fs.write_scaffold"],
    "C14": ["sc.reverse", "fr.reverse", "si.reverse_complement", "fi.rev_chunks", "or.to_scaffold"],
    "C15": ["fi.check_for_index_files", "fi.auto_load", "fi.load_index", "fi.load_assembly", "fi.run_indexing", "fi.write_index", "fi.write_assembly"],
    "C16": ["p2a.get_output_filehandle", "p2a.setup_logging"],
    "C17": ["sc.fragment_tags", "bu.ScaffoldNamer.make_scaffold_name", "fi.load_assembly", "ix.index_fasta_file", "p2a.setup_logging"],
    "C18": ["or.discard_start", "or.discard_end", "or.trim_fragment", "or.start_overhang", "or.end_overhang", "or.start_row_bait_overlap", "or.end_row_bait_overlap", "or.overhang_if_start_removed", "or.overhang_if_end_removed"],
    "C19": ["fr.overlaps", "fr.overlap_length", "fr.abuts", "fr.gap_between", "as.find_overlapping_fragments", "as.all_vs_all_fragments", "af.report_overlaps"],
    "C20": ["as.name_natural_key", "as.smart_sort_scaffolds", "as.scaffolds_sorted_by_name"],
}


def _code_of(obj):
    if isinstance(obj, (staticmethod, classmethod)):
        obj = obj.__func__
    if isinstance(obj, property):
        obj = obj.fget
    while hasattr(obj, "__wrapped__"):
        obj = obj.__wrapped__
    return getattr(obj, "__code__", None)


def resolve(spec):
    head, *path = spec.split(".")
    modname, _, cls = M[head].partition(":")
    obj = importlib.import_module(modname)
    if cls:
        obj = getattr(obj, cls)
    code = None
    for k, part in enumerate(path):
        if code is not None:
            # nested function: look in co_consts
            code = next((c for c in code.co_consts if isinstance(c, types.CodeType) and c.co_name == part), None)
            continue
        nxt = obj.__dict__.get(part) if hasattr(obj, "__dict__") and part in getattr(obj, "__dict__", {}) else getattr(obj, part, None)
        c = _code_of(nxt) if not isinstance(nxt, type) else None
        if c is not None:
            code = c
        else:
            obj = nxt
    return code


CURRENT = None


def add_external(co_name, line):
    """lines executed in a forked child (C15's scheduled processes report them with their result)"""
    c = CURRENT
    if c is None:
        return
    for spec in c.hits:
        if spec.rsplit(".", 1)[-1] == co_name:
            c.hits[spec].add(line)


class Coverage:
    def __init__(self, prop):
        global CURRENT
        CURRENT = self
        self.codes = {}
        self.hits = {}
        self.errors = []
        for spec in ANCHORS.get(prop, []):
            try:
                code = resolve(spec)
            except Exception as e:  # noqa: BLE001
                code = None
                self.errors.append(f"{spec}: {type(e).__name__}")
            if code is None:
                self.errors.append(f"{spec}: not found")
                continue
            self.codes[code] = spec
            self.hits[spec] = set()

    def start(self):
        mon = sys.monitoring
        try:
            mon.use_tool_id(TOOL, "vf-cover")
        except ValueError:
            return
        hits, codes = self.hits, self.codes

        def on_line(code, line):
            spec = codes.get(code)
            if spec is not None:
                hits[spec].add(line)
            return mon.DISABLE

        mon.register_callback(TOOL, mon.events.LINE, on_line)
        for code in self.codes:
            mon.set_local_events(TOOL, code, mon.events.LINE)

    def stop(self):
        mon = sys.monitoring
        for code in self.codes:
            try:
                mon.set_local_events(TOOL, code, 0)
            except Exception:  # noqa: BLE001
                pass
        try:
            mon.free_tool_id(TOOL)
        except Exception:  # noqa: BLE001
            pass

    def result(self):
        out = {}
        for code, spec in self.codes.items():
            lines = sorted({ln for _, _, ln in code.co_lines() if ln is not None and ln != code.co_firstlineno})
            out[spec] = {"hit": sorted(self.hits[spec]), "lines": lines}
        return {"functions": out, "errors": self.errors}
