"""M1: contracts attached from the harness to the real functions of the repository.

* post-conditions are icontract.ensure (+ icontract.snapshot) decorators built
  from *named* condition functions with an explicit error class; they record
  into the worker's collector and return True, so that a violation never
  changes the behaviour being observed and never masks later ones;
* icontract does not evaluate a post-condition when the function raises, so
  exceptional outcomes are observed by a plain try/except wrapper around the
  contract wrapper, which re-raises unchanged;
* after decorating a module-level function every loaded module is scanned for
  `from m import f` bindings of the undecorated function and rebound;
* every contract counts its evaluations; zero evaluations = inconclusive.
"""

import functools
import sys
from collections import Counter

import icontract

EVALS = Counter()
_ATTACHED = {}


class ContractBroken(Exception):
    """Never raised in practice: conditions record and return True."""


def _get_raw(owner, attr):
    raw = owner.__dict__[attr] if hasattr(owner, "__dict__") and attr in owner.__dict__ else getattr(owner, attr)
    kind = None
    fn = raw
    if isinstance(raw, staticmethod):
        kind, fn = staticmethod, raw.__func__
    elif isinstance(raw, classmethod):
        kind, fn = classmethod, raw.__func__
    return raw, kind, fn


def attach(owner, attr, *, post=None, snapshots=(), on_exc=None, on_call=None, label=None):
    """Decorate owner.attr.  Idempotent per (owner, attr, label).

    post      : condition function; parameter names must be a subset of the
                function's parameters plus `result` and `OLD`.
    snapshots : iterable of (capture_fn, name) evaluated before the call.
    on_exc    : on_exc(exc, args, kwargs) called when the function raises.
    on_call   : on_call(args, kwargs) called before the function runs.
    """
    label = label or f"{getattr(owner, '__name__', owner)}.{attr}"
    key = (id(owner), attr, label)
    if key in _ATTACHED:
        return
    raw, kind, fn = _get_raw(owner, attr)
    wrapped = fn
    if post is not None:

        wrapped = icontract.ensure(post, error=ContractBroken)(wrapped)
        for cap, name in snapshots:
            wrapped = icontract.snapshot(cap, name=name)(wrapped)
    inner = wrapped

    @functools.wraps(fn)
    def observer(*args, **kwargs):
        EVALS[label] += 1
        if on_call is not None:
            on_call(args, kwargs)
        try:
            return inner(*args, **kwargs)
        except ContractBroken:
            raise
        except BaseException as e:  # noqa: BLE001 - observed and re-raised unchanged
            if on_exc is not None:
                on_exc(e, args, kwargs)
            raise

    final = kind(observer) if kind else observer
    setattr(owner, attr, final)
    _ATTACHED[key] = (owner, attr, raw)
    if kind is None and not isinstance(owner, type):
        # module-level function: rebind `from m import f` copies
        for m in list(sys.modules.values()):
            d = getattr(m, "__dict__", None)
            if not d or m is owner:
                continue
            for k, v in list(d.items()):
                if v is fn:
                    d[k] = observer
                    _ATTACHED[(id(m), k, label)] = (m, k, fn)


def detach_all():
    for (owner, attr, raw) in list(_ATTACHED.values()):
        try:
            setattr(owner, attr, raw)
        except Exception:  # noqa: BLE001
            pass
    _ATTACHED.clear()


def evals(label):
    return EVALS[label]
