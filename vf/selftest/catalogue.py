"""Deliberate property-breaking edits (applied to scratch copies only, see tools/mutants.py)."""

IA = "src/tola/assembly/indexed_assembly.py"
OR = "src/tola/assembly/overlap_result.py"

IX = "src/tola/fasta/index.py"
BA = "src/tola/assembly/build_assembly.py"
P2A = "src/tola/assembly/scripts/pretext_to_asm.py"

MUTANTS = [
    # ---- C15 ----------------------------------------------------------------
    {"id": "c15-shared-temp-name", "props": ["C15"], "edits": [
        {"file": IX, "old": 'return file.with_name(f"{file.name}.{os.getpid()}.tmp")', "new": 'return file.with_name(f"{file.name}.tmp")'}]},
    {"id": "c15-freshness-ge", "props": ["C15"], "edits": [
        {"file": IX, "old": "if not idx_file.stat().st_mtime > fasta_mtime:", "new": "if not idx_file.stat().st_mtime >= fasta_mtime:"}]},
    {"id": "c15-check-only-fai", "props": ["C15"], "edits": [
        {"file": IX, "old": "for idx_file in self.fai_file, self.agp_file:", "new": "for idx_file in (self.fai_file,):"}]},
    {"id": "c15-in-place-write-agp", "props": ["C15"], "edits": [
        {"file": IX, "old": "        tmp_file = self.temp_file_for(self.agp_file)\n", "new": "        tmp_file = self.agp_file\n"},
        {"file": IX, "old": "        tmp_file.replace(self.agp_file)\n", "new": ""}]},

    # ---- C12 ----------------------------------------------------------------
    {"id": "c12-left-extension-off-by-one", "props": ["C12"], "edits": [
        {"file": IA, "old": "            if idx[i] < bait_start:\n", "new": "            if idx[i] <= bait_start:\n"}]},
    {"id": "c12-keep-trailing-gap", "props": ["C12"], "edits": [
        {"file": IA, "old": "        while j_ovr >= i_ovr and isinstance(scffld.rows[j_ovr], Gap):\n            j_ovr -= 1\n", "new": ""}]},
    {"id": "c12-span-end-of-prev-row", "props": ["C12", "C18"], "edits": [
        {"file": IA, "old": "        overlap_end = idx[j_ovr]\n", "new": "        overlap_end = idx[j_ovr] if j_ovr + 1 < len(idx) or j_ovr == 0 else idx[j_ovr] - 0 * 1 if len(idx) < 7 else idx[j_ovr] - 1\n"}]},
    # ---- C18 ----------------------------------------------------------------
    {"id": "c18-discard-start-forgets-gap-length", "props": ["C18"], "edits": [
        {"file": OR, "old": "            gap = self.rows.pop(0)\n            self.start += gap.length\n", "new": "            gap = self.rows.pop(0)\n            self.start += gap.length if gap.length != 200 else 0\n"}]},
    {"id": "c18-trim-rev-strand-wrong-side", "props": ["C18"], "edits": [
        {"file": OR, "old": "                else:\n                    start += end_ovr\n", "new": "                else:\n                    end -= end_ovr\n"}]},
    {"id": "c18-overhang-if-end-removed-skips-gaps", "props": ["C18"], "edits": [
        {"file": OR, "old": "        for r in self.rows[-2::-1]:  # Step backwards from second to last element\n            if isinstance(r, Gap):\n                end -= r.length\n", "new": "        for r in self.rows[-2::-1]:  # Step backwards from second to last element\n            if isinstance(r, Gap) and r.length < 150:\n                end -= r.length\n"}]},

    # ---- C01 ----------------------------------------------------------------
    {"id": "c01-qc-length-check-dropped", "props": ["C01"], "edits": [
        {"file": BA, "old": "        if fnd.fragment.length != sub_frags_length:\n", "new": "        if False and fnd.fragment.length != sub_frags_length:\n"},
        {"file": BA, "old": "        if overlap_count != 0:\n", "new": "        if False:\n"},
        {"file": BA, "old": "        if abut_count != lgth - 1:\n", "new": "        if False:\n"}]},
    {"id": "c01-missing-scaffolds-skip-last", "props": ["C01"], "edits": [
        {"file": BA, "old": "            for i, frag in scffld.idx_fragments():\n                if not found_frags.get(frag.key_tuple):\n", "new": "            for i, frag in scffld.idx_fragments():\n                if not found_frags.get(frag.key_tuple) and not (frag.length == 1 and i > 2):\n"}]},
    # ---- C02 ----------------------------------------------------------------
    {"id": "c02-trim-start-off-by-one", "props": ["C02", "C18"], "edits": [
        {"file": OR, "old": "                if trim.strand == 1:\n                    start += start_ovr\n", "new": "                if trim.strand == 1:\n                    start += start_ovr - 1\n"}]},
    {"id": "c02-minus-bait-not-reversed", "props": ["C02"], "edits": [
        {"file": OR, "old": "        if self.bait.strand == -1:\n            return scffld.reverse()\n", "new": "        if self.bait.strand == -1 and len(self.rows) != 3:\n            return scffld.reverse()\n"}]},
    # ---- C03 / C13 / C14 ---------------------------------------------------------
    {"id": "c03-rev-chunks-off-by-one", "props": ["C03", "C13", "C14"], "edits": [
        {"file": IX, "old": "        chunk_count = (end - start) // max_length\n", "new": "        chunk_count = (end - start + 1) // max_length\n"}]},
    {"id": "c03-wrap-forgets-carry", "props": ["C03"], "edits": [
        {"file": "src/tola/fasta/stream.py", "old": "                        want -= len(seq)\n                        if want == 0:\n", "new": "                        want -= len(seq)\n                        if want == 0 or (isinstance(row, Gap) and want == 1 and len(seq) == 7):\n"}]},
    {"id": "c13-gap-iter-single-chunk", "props": ["C13"], "edits": [
        {"file": IX, "old": "        chunk_count = 1 + (length // max_length)\n        for i in range(chunk_count):\n            chunk_start = i * max_length\n            chunk_end = min(length, chunk_start + max_length)\n", "new": "        chunk_count = 1\n        for i in range(chunk_count):\n            chunk_start = 0\n            chunk_end = length\n"}]},
    {"id": "c13-indexer-never-flushes", "props": ["C13"], "edits": [
        {"file": IX, "old": "                if seq_buffer.tell() > buffer_size:\n", "new": "                if seq_buffer.tell() > buffer_size * 1000:\n"}]},
    {"id": "c14-complement-table-H-D", "props": ["C14", "C03"], "edits": [
        {"file": "src/tola/fasta/simple.py", "old": 'b"TGCAYRKMSWDVBHNtgcayrkmswdvbhn"', "new": 'b"TGCAYRKMSWHVBDNtgcayrkmswdvbhn"'}]},
    # ---- C04 ----------------------------------------------------------------
    {"id": "c04-merge-runs-across-flush", "props": ["C04", "C13"], "edits": [
        {"file": IX, "old": "            if start == region_end:\n", "new": "            if start == region_end or (region_end and m.start() == 0 and start - region_end == 1):\n"}]},
    # ---- C05 / C06 -----------------------------------------------------------------
    {"id": "c05-tpf-non-greedy-name", "props": ["C05"], "edits": [
        {"file": "src/tola/assembly/parser.py", "old": 'r"(.+):(\\d+)-(\\d+)$"', "new": 'r"(.+?):(\\d+)-(\\d+)"'}]},
    {"id": "c05-gap-type-contig-type2", "props": ["C05"], "edits": [
        {"file": "src/tola/assembly/format.py", "old": '        "contig": "TYPE-3",\n', "new": '        "contig": "TYPE-2",\n'}]},
    {"id": "c06-part-number-from-zero-after-gap", "props": ["C06"], "edits": [
        {"file": "src/tola/assembly/format.py", "old": "                str(i + 1),\n", "new": "                str(i + 1 if i < 40 else i),\n"}]},
    # ---- C07 / C08 / C09 / C10 / C11 ---------------------------------------------
    {"id": "c07-leftover-gap-always-default", "props": ["C07"], "edits": [
        {"file": BA, "old": "                        if isinstance(prev_row, Gap):\n                            new_scffld.add_row(prev_row)\n", "new": "                        if isinstance(prev_row, Gap) and prev_row.length != 10:\n                            new_scffld.add_row(prev_row)\n"}]},
    {"id": "c08-trim-overhang-ge", "props": ["C08", "C02"], "edits": [
        {"file": OR, "old": "        if self.end_overhang > err_length and self.end_row_bait_overlap < err_length:\n", "new": "        if self.end_overhang >= err_length and self.end_row_bait_overlap < err_length:\n"}]},
    {"id": "c09-target-only-first-scaffold", "props": ["C09"], "edits": [
        {"file": "src/tola/assembly/build_utils.py", "old": '            self.target_tags and "Target" not in scaffold_tags\n', "new": '            self.target_tags and "Target" not in scaffold_tags and "Painted" not in scaffold_tags\n'}]},
    {"id": "c10-haplotigs-not-renamed", "props": ["C10"], "edits": [
        {"file": BA, "old": "        self.scaffold_namer.rename_haplotigs_by_size()\n", "new": ""}]},
    {"id": "c10-chr-sort-by-total-length", "props": ["C10"], "edits": [
        {"file": "src/tola/assembly/build_utils.py", "old": "            length += scffld.fragments_length\n", "new": "            length += scffld.length\n"}]},
    {"id": "c11-cuts-count-pieces", "props": ["C11"], "edits": [
        {"file": BA, "old": "        self.assembly_stats.cuts += len(sub_fragments) - 1\n", "new": "        self.assembly_stats.cuts += max(1, len(sub_fragments) - 2)\n"}]},
    # ---- C16 / C17 / C19 / C20 ------------------------------------------------------
    {"id": "c16-csv-always-clobbers", "props": ["C16"], "edits": [
        {"file": P2A, "old": "            with get_output_filehandle(csv_file, clobber) as csv_fh:\n                csv_fh.write(chr_names)\n", "new": "            with get_output_filehandle(csv_file, True) as csv_fh:\n                csv_fh.write(chr_names)\n"}]},
    {"id": "c16-exists-check-after-open", "props": ["C16"], "edits": [
        {"file": P2A, "old": '        out_fh = path.open("w" + mode if clobber else "x" + mode)\n', "new": '        out_fh = path.open("w" + mode if clobber or path.suffix == ".yaml" else "x" + mode)\n'}]},
    {"id": "c17-tag-set-order-picks-name", "props": ["C17"], "edits": [
        {"file": "src/tola/assembly/build_utils.py", "old": "                if scaffold_name and tag != scaffold_name:\n", "new": "                if False and scaffold_name and tag != scaffold_name:\n"}]},
    {"id": "c19-overlaps-strict", "props": ["C19"], "edits": [
        {"file": "src/tola/assembly/fragment.py", "old": "        return bool(self.end >= othr.start and self.start <= othr.end)\n", "new": "        return bool(self.end > othr.start and self.start <= othr.end)\n"}]},
    {"id": "c20-rank-ignored-for-rank3", "props": ["C20"], "edits": [
        {"file": "src/tola/assembly/assembly.py", "old": "            return scaffold.rank, self.name_natural_key(scaffold)\n", "new": "            return min(scaffold.rank, 2), self.name_natural_key(scaffold)\n"}]},
]
