"""Deliberate property-breaking edits (applied to scratch copies only, see tools/mutants.py)."""

IA = "src/tola/assembly/indexed_assembly.py"
OR = "src/tola/assembly/overlap_result.py"

IX = "src/tola/fasta/index.py"
BA = "src/tola/assembly/build_assembly.py"
P2A = "src/tola/assembly/scripts/pretext_to_asm.py"

MUTANTS = [
    # ---- C15 ----------------------------------------------------------------
    {"id": "c15-shared-temp-name", "props": ["C15"], "edits": [
        {"file": IX, "old": 'return file.with_name(f"{file.name}.{os.getpid()}.tmp")', "new": 'return file.with_name(f"{file.name}.tmp")'}]},
    {"id": "c15-freshness-ge", "props": ["C15"], "edits": [
        {"file": IX, "old": "if not idx_file.stat().st_mtime > fasta_mtime:", "new": "if not idx_file.stat().st_mtime >= fasta_mtime:"}]},
    {"id": "c15-check-only-fai", "props": ["C15"], "edits": [
        {"file": IX, "old": "for idx_file in self.fai_file, self.agp_file:", "new": "for idx_file in (self.fai_file,):"}]},
    {"id": "c15-in-place-write-agp", "props": ["C15"], "edits": [
        {"file": IX, "old": "        tmp_file = self.temp_file_for(self.agp_file)\n", "new": "        tmp_file = self.agp_file\n"},
        {"file": IX, "old": "        tmp_file.replace(self.agp_file)\n", "new": ""}]},

    # ---- C12 ----------------------------------------------------------------
    {"id": "c12-left-extension-off-by-one", "props": ["C12"], "edits": [
        {"file": IA, "old": "            if idx[i] < bait_start:\n", "new": "            if idx[i] <= bait_start:\n"}]},
    {"id": "c12-keep-trailing-gap", "props": ["C12"], "edits": [
        {"file": IA, "old": "        while j_ovr >= i_ovr and isinstance(scffld.rows[j_ovr], Gap):\n            j_ovr -= 1\n", "new": ""}]},
    {"id": "c12-span-end-of-prev-row", "props": ["C12", "C18"], "edits": [
        {"file": IA, "old": "        overlap_end = idx[j_ovr]\n", "new": "        overlap_end = idx[j_ovr] if j_ovr + 1 < len(idx) or j_ovr == 0 else idx[j_ovr] - 0 * 1 if len(idx) < 7 else idx[j_ovr] - 1\n"}]},
    # ---- C18 ----------------------------------------------------------------
    {"id": "c18-discard-start-forgets-gap-length", "props": ["C18"], "edits": [
        {"file": OR, "old": "            gap = self.rows.pop(0)\n            self.start += gap.length\n", "new": "            gap = self.rows.pop(0)\n            self.start += gap.length if gap.length != 200 else 0\n"}]},
    {"id": "c18-trim-rev-strand-wrong-side", "props": ["C18"], "edits": [
        {"file": OR, "old": "                else:\n                    start += end_ovr\n", "new": "                else:\n                    end -= end_ovr\n"}]},
    {"id": "c18-overhang-if-end-removed-skips-gaps", "props": ["C18"], "edits": [
        {"file": OR, "old": "        for r in self.rows[-2::-1]:  # Step backwards from second to last element\n            if isinstance(r, Gap):\n                end -= r.length\n", "new": "        for r in self.rows[-2::-1]:  # Step backwards from second to last element\n            if isinstance(r, Gap) and r.length < 150:\n                end -= r.length\n"}]},
]
