"""C03  FASTA output is exactly the output AGP applied to the input FASTA.

Monitor: post-condition on the real FastaStream.write_scaffold (a tee on the
output handle captures exactly the bytes of that call) vs fasta_ref.apply;
direct workload G-fasta x G-sub x buffer x line length; CLI slice: the
<name>.fa / <name>.agp pairs written by pretext-to-asm from a FASTA input.
"""

import base64
import io
import os
from pathlib import Path

from vf.core import dump_scaffold, rng_for, build_scaffolds
from vf.gen import fasta as gfa
from vf.mon import contracts
from vf.ref import agp_ref, fasta_ref

ID = "C03"
LEVEL = "exploration"
RULE = (
    "case = (FASTA bytes, assembly over its records, buffer size, line length): G-fasta x G-sub (rows = arbitrary "
    "sub-intervals, strands +,-,?, gaps 0..2*buffer+1, leading/trailing gap rows) x buffer in {1,2,3,5,7,11,59,60,61,"
    "w-1,w,w+1,250000} x line length in {1,7,60,61}; every write_scaffold call is checked by the attached monitor; "
    "CLI slice: pretext-to-asm with FASTA input and FASTA output on generated PretextView maps, each (.fa,.agp) pair "
    "checked against the input FASTA. Non-trivial = at least one fragment row; distinct by (file, assembly, buffer, width)."
)
ASSUMPTIONS = ["input FASTA is well-formed (C04 domain); '?' rows are streamed forward"]

_REC_CACHE = {}


def _records(path):
    st = os.stat(path)
    key = (str(path), st.st_mtime_ns, st.st_size)
    if key not in _REC_CACHE:
        _REC_CACHE.clear()
        _REC_CACHE[key] = {r["name"]: r for r in fasta_ref.parse(Path(path).read_bytes())}
    return _REC_CACHE[key]


class Tee:
    def __init__(self, inner):
        self.inner = inner
        self.buf = io.BytesIO()

    def write(self, b):
        self.buf.write(b)
        return self.inner.write(b)

    def __getattr__(self, k):
        return getattr(self.inner, k)


def check_record_bytes(ctx, got, scaffold_plain, recs, width, case, origin):
    ctx.count(f"{origin}:write_scaffold-calls")
    want = fasta_ref.apply([scaffold_plain], recs, width)
    if got == want:
        return True
    sig = "record-bytes-differ"
    body = got.split(b"\n")[1:]
    if body and body[-1] == b"":
        body = body[:-1]
    if any(len(x) == 0 for x in body):
        sig = "empty-line"
    elif any(len(x) > width for x in body):
        sig = "over-long-line"
    elif b"".join(body) == b"".join(want.split(b"\n")[1:]):
        sig = "line-wrapping"
    elif len(b"".join(body)) != len(b"".join(want.split(b"\n")[1:])):
        sig = "record-length"
    ctx.violation(sig, f"{origin}: scaffold {scaffold_plain[0]} rows={scaffold_plain[1][:8]}\n got {got[:300]!r}\nwant {want[:300]!r}", case)
    return False


def attach(ctx, origin="insitu"):
    from tola.fasta.stream import FastaStream

    def on_call(args, kwargs):
        self = args[0]
        self.out = Tee(self.out)

    def restore(self):
        t = self.out
        if isinstance(t, Tee):
            self.out = t.inner
            return t.buf.getvalue()
        return None

    def on_exc(exc, args, kwargs):
        restore(args[0])

    def record_equals_rows_applied_to_input(self, scaffold):
        got = restore(self)
        if got is None:
            return True
        try:
            recs = _records(self.index.fasta_file)
        except Exception:  # noqa: BLE001
            ctx.count("insitu:unparseable-input")
            return True
        sp = dump_scaffold(scaffold)
        case = None
        if origin != "direct":
            case = {"kind": "stream", "data": base64.b64encode(Path(self.index.fasta_file).read_bytes()).decode()
                    if os.path.getsize(self.index.fasta_file) < 200000 else None,
                    "scaffolds": [sp], "buffer": self.index.buffer_size, "width": self.line_length}
        check_record_bytes(ctx, got, sp, recs, self.line_length, case or getattr(self, "_vf_case", None), origin)
        return True

    contracts.attach(FastaStream, "write_scaffold", post=record_equals_rows_applied_to_input, on_call=on_call, on_exc=on_exc, label="C03.write_scaffold")


def check_stream(ctx, data, scs, bs, width, scratch):
    from tola.assembly.assembly import Assembly
    from tola.fasta.index import FastaIndex
    from tola.fasta.stream import FastaStream

    ctx.case()
    case = {"kind": "stream", "data": base64.b64encode(data).decode(), "scaffolds": scs, "buffer": bs, "width": width}
    p = Path(scratch) / "s.fa"
    for q in (p, Path(str(p) + ".fai"), Path(str(p) + ".agp")):
        if q.exists():
            q.unlink()
    p.write_bytes(data)
    recs = {r["name"]: r for r in fasta_ref.parse(data)}
    fi = FastaIndex(p, bs)
    try:
        fi.auto_load()
    except Exception as e:  # noqa: BLE001 - C04's business
        ctx.count(f"index-raised:{type(e).__name__}")
        return
    out = io.BytesIO()
    fs = FastaStream(out, fi, line_length=width)
    fs._vf_case = case
    try:
        fs.write_assembly(Assembly("o", scaffolds=build_scaffolds(scs)))
    except Exception as e:  # noqa: BLE001
        ctx.violation(f"stream-raised-{type(e).__name__}", f"write_assembly raised {type(e).__name__}: {e}", case)
        return
    finally:
        fh = fi.__dict__.get("fasta_fileandle")
        if fh:
            fh.close()
    got = out.getvalue()
    want = fasta_ref.apply(scs, recs, width)
    ctx.nontrivial([case["data"], scs, bs, width])
    for name, rows in scs:
        for r in rows:
            if r[0] == "F":
                ctx.count({1: "rows:plus", -1: "rows:minus", 0: "rows:unknown"}[r[4]])
                if r[3] - r[2] + 1 > bs:
                    ctx.count("rows:longer-than-buffer")
            elif r[1] > bs:
                ctx.count("rows:gap-longer-than-buffer")
            elif r[1] == 0:
                ctx.count("rows:zero-gap")
    if got != want:
        ctx.violation("assembly-bytes-differ", f"buffer={bs} width={width}\n got {got[:300]!r}\nwant {want[:300]!r}", case)
        return
    parsed = fasta_ref.split_records(got)
    if [n for n, _, _ in parsed] != [s[0] for s in scs]:
        ctx.violation("record-set-or-order", f"{[n for n, _, _ in parsed]} vs {[s[0] for s in scs]}", case)
    ctx.count("streams:ok")
    if len(data) % 4 == 0 and all(r[0] != "G" or r[1] >= 1 for _, rows in scs for r in rows) and all(rows for _, rows in scs):
        # the function the CLI writes its FASTA outputs with, called with this assembly: the AGP it puts beside
        # the FASTA, applied to the input, gives that FASTA (also for scaffolds that begin or end with a gap)
        import tola.assembly.scripts.pretext_to_asm as p2a

        wa = Path(scratch) / "wa.fa"
        for q in (wa, wa.with_suffix(".agp")):
            q.unlink(missing_ok=True)
        fi2 = FastaIndex(p, bs)
        fi2.auto_load()
        try:
            p2a.write_assembly(fi2, Assembly("wa", scaffolds=build_scaffolds(scs)), wa, "FASTA", True)
        except (Exception, SystemExit) as e:  # noqa: BLE001
            ctx.violation(f"write_assembly-raised-{type(e).__name__}", f"{e}", case)
            return
        finally:
            fh = fi2.__dict__.get("fasta_fileandle")
            if fh:
                fh.close()
        import gc

        gc.collect()  # (write_assembly leaves its two handles to the garbage collector)
        ctx.count("write_assembly:direct-calls")
        agp_p = wa.with_suffix(".agp")
        if not agp_p.exists():
            ctx.violation("agp-companion-missing:write_assembly", f"{wa.name} without {agp_p.name}", case)
            return
        asm2, _ = agp_ref.parse(agp_p.read_text())
        if wa.read_bytes() != fasta_ref.apply(asm2["scaffolds"], recs, 60):
            ctx.violation("write_assembly-fasta-differs-from-its-agp-applied-to-input", f"scaffolds {scs}\nagp:\n{agp_p.read_text()[:400]}", case)
            return
        if any(rows[0][0] == "G" for _, rows in scs):
            ctx.count("write_assembly:scaffold-beginning-with-a-gap")
    if len(ctx.samples) < 2:
        ctx.sample({"fasta": data[:200].decode("latin-1"), "scaffold": scs[0], "buffer": bs, "width": width, "output": got[:200].decode("latin-1")})


def run_direct(shard, ctx):
    scratch = os.environ.get("VERIF_SHARD_SCRATCH", ".")
    for i in range(shard["n"]):
        rng = rng_for(shard["seed"], "c03", shard["index"], i)
        if i == 1 and shard["index"] % 4 == 0:
            # an unwrapped chromosome: one sequence line longer than 1 MiB
            big = bytes(rng.choice(b"ACGT") for _ in range(4096)) * rng.randint(257, 290)
            data = b">big\n" + big + b"\n>after\nACGTNNAC\nGT\n"
            recs_ = [("big", big), ("after", b"ACGTNNACGT")]
            bs = rng.choice([65536, 250000])
            scs = gfa.gen_sub_assembly(rng, recs_, bs) + [["around_1MiB", [["F", "big", 2**20 - 10, 2**20 + 10, 1, []], ["G", 5, "scaffold"], ["F", "big", 2**20 + 1, len(big), -1, []]]]]
            ctx.count("class:sequence-line-longer-than-1MiB")
            check_stream(ctx, data, scs, bs, 60, scratch)
            continue
        data, meta = gfa.gen_fasta(rng)
        w = rng.choice(meta["widths"])
        bs = rng.choice([1, 2, 3, 5, 7, 11, 59, 60, 61, max(1, w - 1), w, w + 1, 250000])
        scs = gfa.gen_sub_assembly(rng, meta["records"], bs)
        if rng.random() < 0.1:
            for s in scs:
                for k, r in enumerate(s[1]):
                    if r[0] == "G" and rng.random() < 0.5:
                        s[1][k] = ["G", 0, "scaffold"]
        if rng.random() < 0.08:
            # a scaffold without rows is still a scaffold of the assembly: a record with an empty sequence
            scs.insert(rng.randint(0, len(scs)), [f"empty_{i}", []])
            ctx.count("class:scaffold-without-rows")
        check_stream(ctx, data, scs, bs, rng.choice([1, 7, 60, 60, 61]), scratch)


def check_cli_case(cr, ctx, optimised=False, extra=()):
    """pretext-to-asm, FASTA in / FASTA out; each (.fa, .agp) pair against the input FASTA."""
    from vf import cli_runs

    ctx.case()
    if optimised:
        # the same run in a fresh interpreter with assertions compiled away (python -O / PYTHONOPTIMIZE)
        res = cli_runs.run_pretext_to_asm(cr, out_name="out.2.fa", inproc=False, env_extra={"PYTHONOPTIMIZE": "1"})
        ctx.count("cli:runs-under-python-O")
    else:
        res = cli_runs.run_pretext_to_asm(cr, out_name="out.2.fa", extra=list(extra))
    if res["exit_code"] != 0:
        ctx.count(f"cli:exit-{res['exit_code']}")
        return
    recs = {r["name"]: r for r in fasta_ref.parse(cr["fasta_bytes"])}
    pairs = 0
    case = cli_runs.case_of(cr)
    for fa in sorted(cr["dir"].glob("out.*.fa")):
        agp = fa.with_suffix(".agp")
        if not agp.exists():
            ctx.violation("agp-companion-missing", f"{fa.name} without {agp.name}", case)
            continue
        pairs += 1
        asm, _ = agp_ref.parse(agp.read_text())
        want = fasta_ref.apply(asm["scaffolds"], recs, 60)
        got = fa.read_bytes()
        if got != want:
            ctx.violation("cli-fasta-differs-from-agp-applied-to-input", f"{fa.name}:\n got {got[:200]!r}\nwant {want[:200]!r}", case)
            continue
        parsed = fasta_ref.split_records(got)
        names = [n for n, _, _ in parsed]
        if len(set(names)) != len(names):
            ctx.violation("cli-duplicate-record-names", f"{fa.name}: {names}", case)
        if names != [s[0] for s in asm["scaffolds"]]:
            ctx.violation("cli-record-order-differs-from-agp", f"{fa.name}: {names} vs {[s[0] for s in asm['scaffolds']]}", case)
        _, ends = agp_ref.validate(agp.read_text())
        for n, seq, _ in parsed:
            if ends.get(n) != len(seq):
                ctx.violation("cli-agp-object-length-differs-from-record", f"{fa.name}: {n} record {len(seq)} agp {ends.get(n)}", case)
        ctx.count("cli:pairs-ok")
    if pairs:
        ctx.nontrivial([case["files"]])
        ctx.count("cli:runs-with-fasta-output")


def rewrite_input_fasta(cr, rng):
    """Same records re-wrapped at another line width (and other residue case), written with the
    mtime the index cache files already have - the cache must not be trusted (cf. C15)."""
    recs = fasta_ref.parse(cr["fasta_bytes"])
    w = rng.choice([11, 37, 50, 70])
    out = b""
    for r in recs:
        seq = r["seq"].swapcase() if rng.random() < 0.5 else r["seq"]
        out += b">" + r["name"].encode() + b"\n" + b"\n".join(seq[i : i + w] for i in range(0, len(seq), w)) + b"\n"
    fa = cr["assembly_file"]
    caches = [Path(str(fa) + ".fai"), Path(str(fa) + ".agp")]
    if not all(c.exists() for c in caches):
        return False
    t = min(c.stat().st_mtime_ns for c in caches)
    fa.write_bytes(out)
    os.utime(fa, ns=(t, t))
    cr["fasta_bytes"] = out
    return True


def run_cli(shard, ctx):
    from vf import cli_runs

    scratch = Path(os.environ.get("VERIF_SHARD_SCRATCH", "."))
    for i in range(shard["n"]):
        rng = rng_for(shard["seed"], "c03cli", shard["index"], i)
        # (every 4th case: two haplotypes - same-named pieces set aside under one tag from different haplotypes
        #  must still come out as one record; every 8th: sub-texel Haplotig slivers, whose pieces may be dropped
        #  altogether - the run may refuse such a map, but a FASTA it writes is still described by its AGP)
        cr = cli_runs.fasta_case(rng, scratch / f"c{i}", tagged=(i % 2 == 1), two_hap=(i % 4 == 3), tiny_split=(i % 4 == 1))
        if "hostile:sub-texel-contig-cut-in-two" in cr["labels"]:
            ctx.count("cli:cases-with-sub-texel-contig-cut-in-two")
        if i % 4 == 3:
            ctx.count("cli:two-haplotype-cases")
        if i % 8 == 5 and cli_runs.add_haplotig_slivers(rng, cr):
            ctx.count("cli:cases-with-haplotig-slivers")
        try:
            check_cli_case(cr, ctx)
            if i % 3 == 1:
                # the FASTA is given through a symbolic link which is then re-pointed to another file
                d = cr["dir"]
                recs = fasta_ref.parse(cr["fasta_bytes"])
                w = rng.choice([13, 29, 44])
                v1 = b"".join(b">" + r["name"].encode() + b"\n" + b"\n".join(r["seq"].swapcase()[k : k + w] for k in range(0, len(r["seq"]), w)) + b"\n" for r in recs)
                (d / "v1.fa").write_bytes(v1)
                t_old = (d / "input.fa").stat().st_mtime - 5000
                os.utime(d / "v1.fa", (t_old, t_old))
                link = d / "current.fa"
                link.symlink_to(d / "input.fa")
                cr2 = {**cr, "assembly_file": link}
                cli_runs.clear_outputs(cr)
                check_cli_case(cr2, ctx)
                link.unlink()
                link.symlink_to(d / "v1.fa")
                cr2["fasta_bytes"] = v1
                cli_runs.clear_outputs(cr)
                ctx.count("cli:rerun-after-symlink-repointed")
                check_cli_case(cr2, ctx)
            if i % 6 == 2:
                cli_runs.clear_outputs(cr)
                check_cli_case(cr, ctx, optimised=True)
            if i % 6 == 4:
                # an AGP of an earlier, different curation is already there and --no-clobber is given: the run
                # refuses, or whatever FASTA it writes is still described by the AGP beside it
                old_agps = {p_.name: p_.read_text() for p_ in cr["dir"].glob("out.*.agp")}
                cli_runs.clear_outputs(cr)
                for n_, txt in old_agps.items():
                    lines = txt.splitlines(keepends=True)
                    (cr["dir"] / n_).write_text("".join(lines[: max(1, len(lines) // 2)]))
                if old_agps:
                    ctx.count("cli:rerun-no-clobber-over-older-agp")
                    check_cli_case(cr, ctx, extra=["--no-clobber"])
            if i % 5 == 1 and cli_runs.inflate_outputs(cr):
                # the directory holds longer files of an earlier curation under the same names (default: overwrite)
                ctx.count("cli:rerun-over-longer-files")
                check_cli_case(cr, ctx)
            if i % 3 == 0 and rewrite_input_fasta(cr, rng):
                cli_runs.clear_outputs(cr)
                ctx.count("cli:rerun-after-fasta-rewritten-with-cache-mtime")
                check_cli_case(cr, ctx)
        finally:
            cli_runs.cleanup(cr)


def run(shard, ctx):
    attach(ctx, "direct" if shard["kind"] == "direct" else "cli")
    if shard["kind"] == "direct":
        run_direct(shard, ctx)
    else:
        run_cli(shard, ctx)
    ctx.count("monitor_evals:write_scaffold", contracts.evals("C03.write_scaffold"))


def replay(case, ctx):
    attach(ctx, "direct")
    if case["kind"] == "stream":
        check_stream(ctx, base64.b64decode(case["data"]), case["scaffolds"], case["buffer"], case["width"], os.environ.get("VERIF_SHARD_SCRATCH", "."))
    else:
        from vf import cli_runs

        attach(ctx, "cli")
        cr = cli_runs.restore_case(case, Path(os.environ.get("VERIF_SHARD_SCRATCH", ".")) / "replay")
        check_cli_case(cr, ctx)


def plan(tier, seed):
    n, per = (12, 1500) if tier == "quick" else (16, 20000)
    nc, perc = (4, 40) if tier == "quick" else (16, 80)
    return [{"kind": "direct", "n": per} for _ in range(n)] + [{"kind": "cli", "n": perc} for _ in range(nc)]


def gates(c, tier):
    need = {
        "streams:ok": 3000,
        "rows:minus": 1000,
        "rows:unknown": 500,
        "rows:longer-than-buffer": 1000,
        "rows:gap-longer-than-buffer": 300,
        "monitor_evals:write_scaffold": 3000,
        "class:scaffold-without-rows": 100,
        "write_assembly:direct-calls": 1000,
        "write_assembly:scaffold-beginning-with-a-gap": 50,
        "class:sequence-line-longer-than-1MiB": 2,
        "cli:pairs-ok": 20,
        "cli:runs-under-python-O": 10,
        "cli:rerun-no-clobber-over-older-agp": 10,
        "cli:rerun-after-fasta-rewritten-with-cache-mtime": 10,
        "cli:rerun-after-symlink-repointed": 10,
        "cli:two-haplotype-cases": 20,
        "cli:rerun-over-longer-files": 10,
        "cli:cases-with-haplotig-slivers": 5,
        "cli:cases-with-sub-texel-contig-cut-in-two": 5,
    }
    return [f"{k}>={v} (got {c.get(k, 0)})" for k, v in need.items() if c.get(k, 0) < v]
