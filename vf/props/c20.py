"""C20  Scaffold ordering is total, numeric-aware and never fails.

Monitor: contract on the real Assembly.name_natural_key (never raises, even
positions str / odd positions int) which fires for every key the sorts
compute; direct laws on scaffolds_sorted_by_name / smart_sort_scaffolds.
"""

import re

from vf.core import rng_for
from vf.mon import contracts

ID = "C20"
LEVEL = "exploration"
RULE = (
    "case = one set of scaffold names (G-names: letters, digits, '_-.', forced runs of I/V/X, leading/trailing "
    "digits, leading zeros, unloc suffixes) sorted from several permutations of its initial order through "
    "scaffolds_sorted_by_name and smart_sort_scaffolds; plus designed sets for the numeric, nematode-numeral, "
    "unloc and rank laws. Non-trivial = set with >=2 distinct names; distinct = distinct name multisets."
)
ASSUMPTIONS = [
    "names are ASCII over letters, digits, '_', '-', '.'; random names are shorter than 60 characters, the numeric law also uses names of 200-400 fields",
    "the unloc law is checked for chromosome names none of which is a proper prefix of another followed by a digit (e.g. not X together with X1)",
]

ALPHA = "ABCDEFGHIJKLMNOPQRSTUVWXYZabcdefghijklmnopqrstuvwxyz"


def attach(ctx):
    from tola.assembly.assembly import Assembly

    def key_is_alternating_str_int(obj, result):
        ctx.count("key:computed")
        ok = isinstance(result, tuple) and all(
            isinstance(x, int) and not isinstance(x, bool) if i % 2 else isinstance(x, str) for i, x in enumerate(result)
        )
        if not ok:
            ctx.violation("key-not-alternating-str-int", f"name_natural_key({obj.name!r}) = {result!r}", {"kind": "names", "names": [obj.name]})
        return True

    def on_exc(exc, args, kwargs):
        obj = args[0] if args else kwargs.get("obj")
        name = getattr(obj, "name", None)
        ctx.count("key:raised")
        cls = "roman-like-run" if isinstance(name, str) and re.search(r"I{4,}|I+V", name) else "other"
        ctx.violation(
            f"sort-key-raised-{type(exc).__name__}-{cls}",
            f"name_natural_key({name!r}) raised {type(exc).__name__}: {exc}",
            {"kind": "names", "names": [name]},
        )

    contracts.attach(Assembly, "name_natural_key", post=key_is_alternating_str_int, on_exc=on_exc, label="C20.name_natural_key")


def gen_name(rng):
    m = rng.random()
    if m < 0.25:
        pre = rng.choice(["SUPER_", "CHR", "RL_", "scaffold_", "chr", "H_", "", "Scaffold_"])
        core = rng.choice([str(rng.randint(0, 120)), "0" * rng.randint(1, 2) + str(rng.randint(0, 30)), rng.choice("XYZWBUV") + rng.choice(["", "1", "2", "10"])])
        suf = rng.choice(["", "", "A", "B", f"_unloc_{rng.randint(1, 12)}", "_1", ".1"])
        return pre + core + suf
    if m < 0.5:
        pre = rng.choice(["SUPER_", "chr", "", "CHR_", "X", "c"])
        roman = "".join(rng.choice("IIIVX") for _ in range(rng.randint(1, 6)))
        suf = rng.choice(["", "", "_unloc_1", "2", "_I", "V", "I"])
        return pre + roman + suf
    n = rng.randint(1, 12)
    pool = ALPHA + "0123456789" * 3 + "_-." * 2 + "IVX" * 4
    return "".join(rng.choice(pool) for _ in range(n))


def sort_names(names, ranks=None):
    from tola.assembly.assembly import Assembly
    from tola.assembly.scaffold import Scaffold

    # rank None in the list = constructed without a rank argument (the class default)
    scs = [(Scaffold(n) if (ranks and ranks[i] is None) else Scaffold(n, rank=(ranks[i] if ranks else 0))) for i, n in enumerate(names)]
    if ranks and all(r is not None for r in ranks) and len(names) % 2:
        # the remapper's own scaffold class (an assembly of OverlapResults is sorted the same way), rank given
        # to the constructor
        from tola.assembly.fragment import Fragment
        from tola.assembly.overlap_result import OverlapResult

        scs = [OverlapResult(Fragment("b", 1, 10, 1), [Fragment("c", 1, 10, 1)], 1, 10, name=n, rank=ranks[i]) for i, n in enumerate(names)]
    a = Assembly("a", scaffolds=list(scs))
    if len({n for n in names}) == len(names) and len(names) % 3 == 0:
        # the indexed flavour of an assembly sorts like any other (it keeps its scaffolds in a dict)
        from tola.assembly.indexed_assembly import IndexedAssembly

        ia = IndexedAssembly("i", scaffolds=list(scs))
        by_ia = ia.scaffolds_sorted_by_name()
        if [x.name for x in by_ia] != [x.name for x in a.scaffolds_sorted_by_name()]:
            raise AssertionError(f"indexed assembly sorts differently: {[x.name for x in by_ia]}")
    by_name = a.scaffolds_sorted_by_name()
    a.smart_sort_scaffolds()
    return by_name, a.scaffolds


def check_set(ctx, names, ranks=None, perms=6, rng=None):
    from tola.assembly.assembly import Assembly

    ctx.case()
    case = {"kind": "names", "names": names, "ranks": ranks}
    if len(set(names)) >= 2:
        ctx.nontrivial(sorted(names))
    ref_keys = None
    order = list(range(len(names)))
    for p in range(perms):
        if p and rng:
            rng.shuffle(order)
        elif p:
            order = order[::-1]
        nm = [names[i] for i in order]
        rk = [ranks[i] for i in order] if ranks else None
        try:
            by_name, smart = sort_names(nm, rk)
        except Exception as e:  # noqa: BLE001 - the monitor on the key has recorded the witness
            ctx.count("sort:raised")
            if not isinstance(e, (ValueError, TypeError)):
                ctx.violation(f"sort-raised-{type(e).__name__}", f"sorting {nm} raised {type(e).__name__}: {e}", case)
            else:
                # make sure the failure is attributed even if the key monitor was bypassed
                ctx.violation(f"sort-raised-{type(e).__name__}", f"sorting {nm} raised {type(e).__name__}: {e}", case)
            return
        keys = [Assembly.name_natural_key(s) for s in by_name]
        if sorted(s.name for s in by_name) != sorted(nm):
            ctx.violation("sorted-output-not-a-permutation", f"input {nm} output {[s.name for s in by_name]}", case)
            return
        if any(a > b for a, b in zip(keys, keys[1:])):
            ctx.violation("sorted-output-not-non-decreasing", f"{[s.name for s in by_name]}", case)
            return
        if ref_keys is None:
            ref_keys = keys
        elif keys != ref_keys:
            ctx.violation("order-depends-on-initial-permutation", f"{nm} -> {[s.name for s in by_name]}", case)
            return
        # the rank that orders a scaffold is the rank it was given
        if rk and len(set(nm)) == len(nm):
            given = dict(zip(nm, rk))
            wrong = [(x.name, x.rank, given[x.name]) for x in smart if given[x.name] is not None and x.rank != given[x.name]]
            if wrong:
                ctx.violation("scaffold-rank-differs-from-the-rank-it-was-given", f"(name, rank, given) {wrong[:4]} ({type(smart[0]).__name__} objects)", case)
                return
        # rank first, then natural key
        sk = [(s.rank, Assembly.name_natural_key(s)) for s in smart]
        if any(a > b for a, b in zip(sk, sk[1:])) or sorted(s.name for s in smart) != sorted(nm):
            ctx.violation("smart-sort-not-rank-then-name", f"{[(s.rank, s.name) for s in smart]}", case)
            return
        if ranks and any(a.rank > b.rank for a, b in zip(smart, smart[1:])):
            ctx.violation("rank-does-not-take-precedence", f"{[(s.rank, s.name) for s in smart]}", case)
            return
    ctx.count("sets:sorted")


def law_rename_resort(ctx, rng):
    """Sorting must follow the names the scaffolds have *now*: sort, rename the same objects, sort again."""
    from tola.assembly.assembly import Assembly
    from tola.assembly.scaffold import Scaffold

    n = rng.randint(3, 9)
    first = [f"Scaffold_{k}" for k in rng.sample(range(1, 40), n)]
    second = [f"SUPER_{k}" for k in rng.sample(range(1, 40), n)]
    scs = [Scaffold(nm, rank=1) for nm in first]
    a = Assembly("a", scaffolds=list(scs))
    ctx.case()
    ctx.nontrivial([first, second])
    a.scaffolds_sorted_by_name()
    a.smart_sort_scaffolds()
    for s_, nm in zip(scs, second):
        s_.name = nm
    a.smart_sort_scaffolds()
    got = [s_.name for s_ in a.scaffolds]
    got2 = [s_.name for s_ in a.scaffolds_sorted_by_name()]
    want = [f"SUPER_{k}" for k in sorted(int(x.split("_")[1]) for x in second)]
    ctx.count("law:rename-resort")
    if got != want or got2 != want:
        ctx.violation("order-follows-names-from-an-earlier-sort", f"after renaming {first} -> {second}: {got} / {got2}, expected {want}", {"kind": "names", "names": second})


def law_numeric(ctx, rng):
    P = rng.choice(["SUPER_", "scaffold_", "chr", "H_", "a.b-", "x_I_"])
    if rng.random() < 0.03:
        # a very long name: hundreds of numeric fields before the one that differs
        P = "".join(f"f{rng.randint(0, 99)}_" for _ in range(rng.choice([200, 255, 256, 257, 400])))
        ctx.count("law:numeric:names-with-hundreds-of-fields")
    S = rng.choice(["", "_unloc_1", "A", ".x", "_I"])
    m = rng.randint(0, 10 ** rng.randint(0, 6))
    n = m + rng.choice([1, 1, 9, rng.randint(1, 10**5)])
    names = [f"{P}{n}{S}", f"{P}{m}{S}"]
    ctx.case()
    ctx.nontrivial(names)
    by_name, _ = sort_names(names)
    ctx.count("law:numeric")
    if [s.name for s in by_name] != [f"{P}{m}{S}", f"{P}{n}{S}"]:
        ctx.violation("embedded-numbers-not-by-value", f"{names} sorted to {[s.name for s in by_name]}", {"kind": "names", "names": names})


def law_roman(ctx, rng):
    P = rng.choice(["", "chr", "SUPER_", "CHR_", "Chr."])
    S = rng.choice(["", "_unloc_1", "_1", ".2", "_random"])
    exp = [f"{P}{r}{S}" for r in ("I", "II", "III", "IV")]
    names = exp[:]
    rng.shuffle(names)
    ctx.case()
    ctx.nontrivial(names)
    by_name, _ = sort_names(names)
    ctx.count("law:roman")
    if [s.name for s in by_name] != exp:
        ctx.violation("nematode-numerals-not-by-value", f"{names} sorted to {[s.name for s in by_name]}", {"kind": "names", "names": names})


def law_unloc(ctx, rng):
    prefix = rng.choice(["SUPER_", "CHR", "RL_"])
    exp = []
    nchr = rng.randint(1, 14)
    for n in range(1, nchr + 1):
        letters = [""] if rng.random() < 0.8 else ["A", "B", "C"][: rng.randint(2, 3)]
        for ltr in letters:
            c = f"{prefix}{n}{ltr}"
            exp.append(c)
            for k in range(1, rng.choice([0, 0, 1, 2, 11]) + 1):
                exp.append(f"{c}_unloc_{k}")
    named = rng.sample(["B1", "B2", "W", "X", "Y", "Z"], rng.randint(0, 3))
    exp_named = []
    for c in sorted(named):
        exp_named.append(f"{prefix}{c}")
        for k in range(1, rng.choice([0, 1, 2]) + 1):
            exp_named.append(f"{prefix}{c}_unloc_{k}")
    names = exp + exp_named
    ranks = [1] * len(exp) + [2] * len(exp_named)
    idx = list(range(len(names)))
    rng.shuffle(idx)
    ctx.case()
    ctx.nontrivial(sorted(names))
    _, smart = sort_names([names[i] for i in idx], [ranks[i] for i in idx])
    ctx.count("law:unloc")
    if [s.name for s in smart] != names:
        ctx.violation("unloc-not-directly-after-its-chromosome", f"expected {names}\n     got {[s.name for s in smart]}", {"kind": "names", "names": [names[i] for i in idx], "ranks": [ranks[i] for i in idx]})
    if len(ctx.samples) < 2:
        ctx.sample({"input_order": [names[i] for i in idx][:12], "sorted": [s.name for s in smart][:12]})


def law_unloc_prefix_names(ctx, rng):
    """Known finding D10: a named chromosome whose name is another one's name followed by
    digits (X and X1).  Expected by the statement: X, X_unloc_1, X1 ..."""
    prefix = rng.choice(["SUPER_", "CHR"])
    base = rng.choice(["X", "W", "B", "Z"])
    ext = base + str(rng.choice([1, 2, 10]))
    exp = [f"{prefix}{base}"] + [f"{prefix}{base}_unloc_{k}" for k in range(1, rng.randint(1, 3) + 1)] + [f"{prefix}{ext}"]
    if rng.random() < 0.5:
        exp.append(f"{prefix}{ext}_unloc_1")
    idx = list(range(len(exp)))
    rng.shuffle(idx)
    ctx.case()
    ctx.nontrivial(sorted(exp))
    _, smart = sort_names([exp[i] for i in idx], [2] * len(exp))
    got = [s.name for s in smart]
    ctx.count("law:unloc-prefix-names")
    if got != exp:
        k = next(i for i in range(len(exp)) if got[i] != exp[i])
        intruder = got[k]
        shape = re.fullmatch(re.escape(prefix + base) + r"\d+(_unloc_\d+)?", intruder) is not None and "_unloc_" in exp[k]
        sig = "unloc-after-chromosome-whose-name-prefixes-another" if shape else "unloc-not-directly-after-its-chromosome"
        ctx.violation(sig, f"expected {exp}\n     got {got}", {"kind": "names", "names": [exp[i] for i in idx], "ranks": [2] * len(exp)})


# ---- CLI leg: the order in the written files is the sorted order ---------------------------------
SNAP = {"sources": None}


def attach_cli():
    from tola.assembly.scripts import pretext_to_asm as p2a

    def on_call(args, kwargs):
        asm_dict = args[0] if args else kwargs["asm_dict"]
        SNAP["sources"] = [(str(k), [(s.rank, s.name) for s in a.scaffolds]) for k, a in asm_dict.items()]

    contracts.attach(p2a, "name_assemblies", on_call=on_call, label="C20.name_assemblies")

    def on_write(args, kwargs):
        out_asm = args[1] if len(args) > 1 else kwargs["out_asm"]
        SNAP.setdefault("written", []).append((str(out_asm.name), [(s.rank, s.name) for s in out_asm.scaffolds]))

    contracts.attach(p2a, "write_assembly", on_call=on_write, label="C20.write_assembly")


def collapse(names):
    out = []
    for n in names:
        if not out or out[-1] != n:
            out.append(n)
    return out


def decompose(names, blocks):
    """can `names` (object names of a file, in order, runs of one name read as one object) be written as a
    concatenation of whole, distinct blocks?  (Two same-named scaffolds of different merged assemblies that
    follow each other in a file read as one - that is C07's known finding D11, not an ordering fault.)"""
    import itertools

    blocks = [b for b in blocks if b]
    if len(blocks) > 6:
        blocks = [b for b in blocks if set(b) & set(names)]
    for r in range(1, len(blocks) + 1):
        for combo in itertools.permutations(range(len(blocks)), r):
            if collapse([n for i in combo for n in blocks[i]]) == names:
                return True
    return not names


def check_cli_order(cr, ctx):
    from tola.assembly.assembly import Assembly
    from vf import cli_runs

    ctx.case()
    SNAP["sources"] = None
    res = cli_runs.run_pretext_to_asm(cr, out_name="out.agp")
    if res["exit_code"] != 0 or SNAP["sources"] is None:
        ctx.count("cli:error-exit")
        return
    case = cli_runs.case_of(cr)
    ctx.nontrivial(case["files"])

    class N:  # name_natural_key only reads .name
        def __init__(self, name):
            self.name = name

    blocks = []
    for key, rows in SNAP["sources"]:
        sk = [(r, Assembly.name_natural_key(N(n))) for r, n in rows]
        if any(a > b for a, b in zip(sk, sk[1:])):
            ctx.violation("assembly-handed-to-output-not-rank-then-name", f"assembly {key}: {rows}", case)
            return
        if len({r for r, _ in rows}) > 1:
            ctx.count("cli:assembly-with-several-ranks")
        blocks.append([n for _, n in rows])
    nfiles = 0
    for name, data in cli_runs.output_files(cr).items():
        if not name.endswith(".agp"):
            continue
        nfiles += 1
        got = []
        for line in data.decode().splitlines():
            if line and not line.startswith("#"):
                obj = line.split("\t", 1)[0]
                if not got or got[-1] != obj:
                    got.append(obj)
        if not decompose(got, blocks):
            ctx.violation("written-order-is-not-the-sorted-order", f"{name}: {got}\nsorted assemblies: {SNAP['sources']}", case)
            return
        if sum(1 for b in blocks if b and set(b) <= set(got)) > 1:
            ctx.count("cli:file-merged-from-several-assemblies")
        if "all_haplotigs" in name:
            ranks = {r for k, rows in SNAP["sources"] for r, n in rows if n in set(got)}
            if len(ranks) > 1:
                ctx.count("cli:all_haplotigs-with-several-ranks")
    # the chromosome list beside an assembly file lists its chromosomes in the order the file has them
    files = cli_runs.output_files(cr)
    for name, data in files.items():
        if not name.endswith(".chromosome.list.csv"):
            continue
        agp = next((n for n in files if n.endswith(".agp") and n.startswith(name[: -len("chromosome.list.csv")])), None)
        if agp is None:
            continue
        csv_names = [ln.split(",")[0] for ln in data.decode().splitlines() if ln.strip()]
        in_file = []
        for line in files[agp].decode().splitlines():
            if line and not line.startswith("#"):
                obj = line.split("\t", 1)[0]
                if (not in_file or in_file[-1] != obj) and obj in set(csv_names):
                    in_file.append(obj)
        ctx.count("cli:chromosome-list-order-checked")
        if len(csv_names) >= 3:
            ctx.count("cli:chromosome-list-with-3-or-more-lines")
        if collapse(csv_names) != collapse(in_file):  # (runs of one name: C07's known finding D11, not an ordering fault)
            ctx.violation("chromosome-list-order-differs-from-assembly-file", f"{name}: {csv_names}\n{agp}: {in_file}", case)
            return
    if nfiles:
        ctx.count("cli:order-checked")
    if cr.get("also_stdout"):
        # the same run without --output: the assemblies are printed (human-readable listing) in the same order
        cli_runs.clear_outputs(cr)
        SNAP["written"] = []
        res = cli_runs.run_pretext_to_asm(cr, out_name=None, extra=["--no-write-log"])
        if res["exit_code"] != 0 or not SNAP["written"]:
            ctx.count("cli:stdout-run-error-exit")
            return
        # (without --output the assemblies go to the printer as they are: what is handed over is what is listed)
        SNAP["sources"] = SNAP["written"]
        blocks = [[n for _, n in rows] for _, rows in SNAP["sources"]]
        for key, rows in SNAP["sources"]:
            sk = [(r, Assembly.name_natural_key(N(n))) for r, n in rows]
            if any(a > b for a, b in zip(sk, sk[1:])):
                ctx.violation("assembly-handed-to-output-not-rank-then-name", f"assembly {key}: {rows}", case)
                return
        listing, cur, blank = [], None, True
        for line in res["stdout"].splitlines():
            if re.match(r"\S*Assembly: ", line):
                cur = []
                listing.append(cur)
            elif cur is not None and blank and re.match(r"  \S", line) and not line.startswith("  #"):
                cur.append(line.strip().split(" ")[0])
            blank = not line.strip()
        ctx.count("cli:stdout-listings", len(listing))
        for got in listing:
            if not decompose(collapse(got), blocks):
                ctx.violation("printed-order-is-not-the-sorted-order", f"printed: {got}\nsorted assemblies: {SNAP['sources']}", {**case, "also_stdout": True})
                return
            if len({r for _, rows in SNAP["sources"] for r, n in rows if n in set(got)}) > 1:
                ctx.count("cli:stdout-listing-with-several-ranks")


def run_cli(shard, ctx):
    import os
    from pathlib import Path

    from vf import cli_runs

    attach_cli()
    base = Path(os.environ.get("VERIF_SHARD_SCRATCH", "."))
    for i in range(shard["n"]):
        rng = rng_for(shard["seed"], "c20cli", shard["index"], i)
        d = base / f"c{i}"
        k = i % 4
        if k == 3:
            cr = cli_runs.text_case(rng, d, fmt="agp", nhap=rng.choice([3, 4]))
            ctx.count("cli:three-or-more-haplotypes")
        elif k == 0:
            cr = cli_runs.text_case(rng, d, fmt="agp", tagged=True, two_hap=True, unprefixed=True, primary=True)
        elif k == 1:
            cr = cli_runs.text_case(rng, d, fmt="agp", tagged=True, two_hap=True, unprefixed=rng.random() < 0.5)
        else:
            cr = cli_runs.text_case(rng, d, fmt="tpf", tagged=True)
        cr["also_stdout"] = i % 3 == 0
        try:
            check_cli_order(cr, ctx)
        finally:
            cli_runs.cleanup(cr)
    ctx.count("monitor_evals:name_assemblies", contracts.evals("C20.name_assemblies"))


def run(shard, ctx):
    attach(ctx)
    if shard.get("kind") == "cli":
        run_cli(shard, ctx)
        return
    if shard.get("kind") == "prefix-names":
        for i in range(shard["n"]):
            law_unloc_prefix_names(ctx, rng_for(shard["seed"], "c20p", shard["index"], i))
        return
    for i in range(shard["n"]):
        rng = rng_for(shard["seed"], "c20", shard["index"], i)
        k = i % 8
        if k == 4 and i % 16 == 4:
            law_rename_resort(ctx, rng)
        elif k == 5:
            law_numeric(ctx, rng)
        elif k == 6:
            law_roman(ctx, rng)
        elif k == 7:
            law_unloc(ctx, rng)
        else:
            names = [gen_name(rng) for _ in range(rng.randint(1, 9))]
            if rng.random() < 0.3:
                names.append(rng.choice(names))
            ranks = [rng.choice([0, 1, 2, 3, None]) for _ in names] if rng.random() < 0.5 else None
            if ranks and i % 24 == 0:
                # rank is an integer like any other: values beyond the four the pipeline assigns, and negative ones
                ranks = [rng.choice([-2, -1, 0, 3, 5, 8, 10, 20, 30, 64, 1000, None]) for _ in names]
                ctx.count("sets:with-ranks-outside-0-3")
            check_set(ctx, names, ranks, perms=shard.get("perms", 6), rng=rng)
    ctx.count("monitor_evals:name_natural_key", contracts.evals("C20.name_natural_key"))


def replay(case, ctx):
    attach(ctx)
    if case.get("kind") == "cli":
        import os
        from pathlib import Path

        from vf import cli_runs

        attach_cli()
        cr_ = cli_runs.restore_case(case, Path(os.environ.get("VERIF_SHARD_SCRATCH", ".")) / "replay")
        cr_["also_stdout"] = case.get("also_stdout")
        check_cli_order(cr_, ctx)
        return
    check_set(ctx, case["names"], case.get("ranks"), perms=6, rng=rng_for(0, "replay"))


def plan(tier, seed):
    n, per = (16, 2500) if tier == "quick" else (16, 40000)
    return [{"kind": "names", "n": per, "perms": 6 if tier == "quick" else 20} for _ in range(n)] + [{"kind": "prefix-names", "n": 200 if tier == "quick" else 5000}] + [
        {"kind": "cli", "n": 75 if tier == "quick" else 600} for _ in range(8)
    ]


def gates(c, tier):
    need = {"sets:sorted": 2000, "sets:with-ranks-outside-0-3": 100, "law:numeric": 500, "law:numeric:names-with-hundreds-of-fields": 20, "law:roman": 500, "law:unloc": 500, "law:rename-resort": 200, "monitor_evals:name_natural_key": 50000,
            "cli:order-checked": 100, "cli:chromosome-list-with-3-or-more-lines": 30, "cli:three-or-more-haplotypes": 30, "cli:all_haplotigs-with-several-ranks": 5, "cli:file-merged-from-several-assemblies": 5, "monitor_evals:name_assemblies": 100,
            "cli:stdout-listings": 100, "cli:stdout-listing-with-several-ranks": 30}
    return [f"{k}>={v} (got {c.get(k, 0)})" for k, v in need.items() if c.get(k, 0) < v]
