"""C01  Remapping conserves sequence: outputs exactly partition the input contigs.

Oracle: interval partition (vf.ref.layout_ref.check_partition) of all output
assemblies pooled, on every completed run; errors are an allowed, counted
outcome.  Workloads: G-asm x (G-pv, G-hostile, G-tag, two-haplotype G-tag) in
memory, plus a CLI slice whose *written files* are parsed by the reference
parsers and put through the same oracle.
"""

import os
from pathlib import Path

from vf import workloads
from vf.core import rng_for
from vf.ref import agp_ref, layout_ref, tpf_ref

ID = "C01"
LEVEL = "exploration"
RULE = (
    "case = (input assembly, Pretext AGP, texel size): G-asm (FASTA-like / free contig names / shared contig names, "
    "both strands, 1-bp to 60-texel contigs, all gap classes, optional terminal gaps) x {PretextView-model scripts, "
    "perturbed/dropped/duplicated/overlapping/out-of-range/arbitrary bait lists, tag noise, designed taggings, "
    "two-haplotype designs} x texel sizes 1..2326 and random; CLI slice through files in TPF/AGP/FASTA. "
    "Non-trivial = remap completed and the map has >=2 baits; distinct = distinct (input, pretext, t)."
)
ASSUMPTIONS = [
    "input assemblies are valid: pairwise disjoint contig intervals per contig name, unique scaffold names, gap length >= 1",
    "any exception is 'ends in an error' (counted by type and raising function, never a verdict)",
]


def oracle(case, outcome, ctx):
    ctx.case()
    if not outcome["ok"]:
        return
    nb = sum(1 for s in case["pretext"] for r in s[1] if r[0] == "F")
    if nb >= 2:
        ctx.nontrivial([case["input"], case["pretext"], case["t"]])
    errs = layout_ref.check_partition(case["input"], outcome["out"])
    nasm = len(outcome["out"])
    if nasm > 1:
        ctx.count("out:multi-assembly")
    if outcome["stats"]["cuts"]:
        ctx.count("out:with-cuts")
    for sig, msg in errs[:3]:
        ctx.violation(f"{sig}:{case['gen']}", f"{msg}\nt={case['t']}\ninput={case['input']}\npretext={case['pretext']}", _strip(case))
    if not errs:
        ctx.count(f"partition-ok:{case['gen']}")
        if len(ctx.samples) < 2 and outcome["stats"]["cuts"] and nasm > 1:
            ctx.sample({"t": case["t"], "input": case["input"][:3], "pretext": case["pretext"][:4], "output": outcome["out"][:2]})


def _strip(case):
    return {k: v for k, v in case.items() if k not in ("labels",)}


def check_cli(cr, ctx, out_fmt, optimised=False):
    from vf import cli_runs

    ctx.case()
    out_name = f"out.{ {'tpf': 'tpf', 'agp': 'agp', 'fa': 'fa'}[out_fmt] }"
    if optimised:
        # a fresh interpreter with assertions compiled away (python -O): the safety nets must still be there
        res = cli_runs.run_pretext_to_asm(cr, out_name=out_name, inproc=False, env_extra={"PYTHONOPTIMIZE": "1"})
    else:
        res = cli_runs.run_pretext_to_asm(cr, out_name=out_name)
    if res["exit_code"] != 0:
        ctx.count(f"cli:error-exit:{out_fmt}")
        return
    ctx.count(f"cli:completed:{out_fmt}")
    out = []
    for p in sorted(cr["dir"].iterdir()):
        n = p.name
        if not n.startswith("out.") or n.endswith((".csv", ".yaml", ".log")):
            continue
        if out_fmt == "tpf" and n.endswith(".tpf"):
            out.append([n, tpf_ref.parse(p.read_text())[0]["scaffolds"]])
        elif out_fmt in ("agp", "fa") and n.endswith(".agp"):
            out.append([n, agp_ref.parse(p.read_text())[0]["scaffolds"]])
    ctx.nontrivial(cli_runs.case_of(cr)["files"])
    errs = layout_ref.check_partition(cr["input"], out)
    for sig, msg in errs[:3]:
        ctx.violation(f"{sig}:cli-files", f"{msg}\nfiles={[o[0] for o in out]}", cli_runs.case_of(cr, {"out_fmt": out_fmt}))
    if not errs:
        ctx.count("partition-ok:cli-files")


def replace_fasta_keeping_cache_mtime(cr, rng):
    """The FASTA is replaced, at the same path, by another version of the assembly: a stretch inside some contigs
    is now N (the contig is two contigs).  The new file has exactly the mtime the index cache files of the
    first run have (coarse timestamps, cp -p, rsync -t).  The run must describe the file as it is now."""
    from vf.ref import fasta_ref

    caches = [Path(str(cr["assembly_file"]) + ".fai"), Path(str(cr["assembly_file"]) + ".agp")]
    if not all(c.exists() for c in caches):
        return False
    recs = {r["name"]: bytearray(r["seq"]) for r in fasta_ref.parse(cr["fasta_bytes"])}
    inp2 = []
    changed = False
    for name, rows in cr["input"]:
        new_rows = []
        for r in rows:
            if r[0] == "F" and r[3] - r[2] + 1 >= 5 and rng.random() < 0.5:
                a = rng.randint(r[2] + 1, r[3] - 2)
                b = rng.randint(a, min(r[3] - 1, a + 40))
                recs[name][a - 1 : b] = b"N" * (b - a + 1)
                new_rows += [["F", r[1], r[2], a - 1, 1, []], ["G", b - a + 1, "scaffold"], ["F", r[1], b + 1, r[3], 1, []]]
                changed = True
            else:
                new_rows.append(r)
        inp2.append([name, new_rows])
    if not changed:
        return False
    out = b"".join(b">" + n.encode() + b"\n" + b"\n".join(bytes(sq[k : k + 60]) for k in range(0, len(sq), 60)) + b"\n" for n, sq in recs.items())
    t = min(c.stat().st_mtime_ns for c in caches)
    cr["assembly_file"].write_bytes(out)
    os.utime(cr["assembly_file"], ns=(t, t))
    cr["fasta_bytes"], cr["input"] = out, inp2
    return True


def run_cli(shard, ctx):
    from vf import cli_runs

    scratch = Path(os.environ.get("VERIF_SHARD_SCRATCH", "."))
    for i in range(shard["n"]):
        rng = rng_for(shard["seed"], "c01cli", shard["index"], i)
        mode = i % 4
        d = scratch / f"c{i}"
        if i % 5 == 4:
            # an inconsistent (hostile) map through the CLI under python -O: an error exit or an exact partition
            from vf import workloads
            from vf.gen import pv as gpv

            hc = workloads.make_case(shard["seed"], shard["index"], i, "hostile", {})
            d.mkdir(parents=True, exist_ok=True)
            (d / "input.agp").write_text(agp_ref.format({"header": [], "scaffolds": hc["input"]}))
            (d / "pretext.agp").write_text(gpv.pretext_agp_text(hc["pretext"], hc["t"]))
            cr = {"dir": d, "assembly_file": d / "input.agp", "pretext_file": d / "pretext.agp", "fasta_bytes": None, "t": hc["t"], "input": hc["input"],
                  "pretext": hc["pretext"], "design": None, "pieces": None, "labels": hc["labels"], "prefix": "SUPER_"}
            ctx.count("cli:hostile-map-under-python-O")
            try:
                check_cli(cr, ctx, "agp", optimised=True)
            finally:
                cli_runs.cleanup(cr)
            continue
        if mode == 3:
            # two haplotypes, neither of them "Primary": one output file per haplotype (named after the lower-cased key)
            cr = cli_runs.text_case(rng, d, fmt="agp", tagged=True, two_hap=True, unprefixed=rng.random() < 0.5, primary=False)
            if "tag:name-spelled-haplotype-seen-before-its-tag" in cr["labels"]:
                ctx.count("cli:name-spelled-haplotype-seen-before-its-tag")
            fmt = rng.choice(["agp", "tpf"])
        elif mode == 0:
            cr = cli_runs.fasta_case(rng, d, tagged=rng.random() < 0.5)
            fmt = rng.choice(["fa", "agp"])
        elif mode == 1:
            cr = cli_runs.text_case(rng, d, fmt="tpf", tagged=rng.random() < 0.5)
            fmt = "tpf"
        else:
            forced = i % 12 == 2  # Primary mode with several other curated assemblies (merged into all_haplotigs)
            cr = cli_runs.text_case(rng, d, fmt="agp", tagged=rng.random() < 0.5, two_hap=forced or rng.random() < 0.45, unprefixed=True, primary=True if forced else None)
            if (cr.get("design") or {}).get("primary") and "tag:unprefixed-scaffold-in-haplotype-map" in cr["labels"]:
                ctx.count("cli:primary-mode-with-several-other-assemblies")
            fmt = rng.choice(["agp", "tpf"])
        try:
            if mode == 0:
                # FASTA input: the indexer works with a small buffer in two cases out of three, so that records
                # are longer than the buffer and runs of N end on buffer boundaries (as they do, at 250 000
                # residues, in chromosome-sized records)
                from vf.props.c17 import patched_buffer

                bs_ = [5, 60, 250000][i % 3]
                if bs_ < 250000:
                    ctx.count("cli:fasta-input-indexed-with-small-buffer")
                with patched_buffer(bs_):
                    check_cli(cr, ctx, fmt)
                    if i % 8 == 0 and replace_fasta_keeping_cache_mtime(cr, rng):
                        cli_runs.clear_outputs(cr)
                        ctx.count("cli:rerun-after-fasta-replaced-with-cache-mtime")
                        check_cli(cr, ctx, fmt)
            else:
                check_cli(cr, ctx, fmt)
        finally:
            cli_runs.cleanup(cr)


def run(shard, ctx):
    if shard["kind"] == "cli":
        run_cli(shard, ctx)
    else:
        workloads.run_remap_batch(shard, ctx, kinds=tuple(shard["kinds"]), oracle=oracle, opts={"terminal_gaps": True})


def replay(case, ctx):
    if case["kind"] == "cli":
        from vf import cli_runs

        cr = cli_runs.restore_case(case, Path(os.environ.get("VERIF_SHARD_SCRATCH", ".")) / "replay")
        check_cli(cr, ctx, case.get("out_fmt", "agp"))
    else:
        oracle(case, workloads.run_case(case), ctx)


def plan(tier, seed):
    n, per = (15, 2400) if tier == "quick" else (15, 40000)
    sh = []
    for k in range(n):
        kinds = [["pv", "hostile"], ["hostile"], ["tag", "tag2", "hostile"], ["pv", "tag"]][k % 4]
        sh.append({"kind": "mem", "kinds": kinds, "n": per})
    nc, perc = (8, 40) if tier == "quick" else (16, 160)
    sh += [{"kind": "cli", "n": perc} for _ in range(nc)]
    return sh


def gates(c, tier):
    need = {
        "partition-ok:pv": 500,
        "partition-ok:hostile": 500,
        "partition-ok:tag": 200,
        "partition-ok:tag2": 100,
        "partition-ok:cli-files": 20,
        "cli:primary-mode-with-several-other-assemblies": 3,
        "cli:name-spelled-haplotype-seen-before-its-tag": 3,
        "cli:hostile-map-under-python-O": 40,
        "cli:rerun-after-fasta-replaced-with-cache-mtime": 10,
        "cli:fasta-input-indexed-with-small-buffer": 20,
        "out:multi-assembly": 100,
        "out:with-cuts": 300,
        "label:in:both-strands": 500,
        "label:in:1bp-contig": 100,
        "label:hostile:overlap": 50,
        "label:hostile:arbitrary": 50,
        "label:in:scaffold-name-in-two-blocks": 50,
    }
    out = [f"{k}>={v} (got {c.get(k, 0)})" for k, v in need.items() if c.get(k, 0) < v]
    comp, err = c.get("remap:hostile:completed", 0), c.get("remap:hostile:error", 0)
    if comp + err and comp < 0.25 * (comp + err):
        out.append(f"hostile completion rate >= 25% (got {comp}/{comp + err})")
    if not any(k.startswith("remap-error:ValueError@qc_sub_fragments") for k in c):
        out.append("internal QC (qc_sub_fragments) observed raising >= 1")
    return out
