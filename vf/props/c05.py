"""C05  AGP and TPF parse/format round-trip without loss.

Oracles: independent line-by-line parser/formatter (vf.ref.agp_ref, tpf_ref):
(i) parse(format(A)) == A, (ii) format(parse(T)) == T for canonical T and the
real formatter equals the reference formatter, (iii) the same for TPF incl. the
gap-type table both ways, (iv) AGP->TPF->AGP drops only tags, (v) line
accounting on corrupted texts: same rows as the reference or an error.
"""

import io
import os
from pathlib import Path

from vf.core import build_scaffolds, dump_scaffolds, rng_for
from vf.gen import text as gtext
from vf.ref import agp_ref, tpf_ref

ID = "C05"
LEVEL = "exploration"
RULE = (
    "case = one generated assembly (names over a wide alphabet without tab/CR/LF incl. names that look like TPF "
    "coordinates such as 'x:12-34', coordinates up to 1e12, strands +,-,?, 0-3 tags, all AGP gap types, 1-4 scaffolds, "
    "0-2 header lines) put through the round-trip laws in AGP and (when TPF can carry it) TPF, plus one line-level "
    "corruption of its canonical text (dropped column, bad strand, non-numeric or reversed coordinates, wrong TPF "
    "field count, gap before first fragment, duplicated / swapped lines, blank and comment lines); a slice goes "
    "through the asm-format CLI (files, stdin, -i/-f overrides, CRLF input). Non-trivial = assembly with >=2 rows; "
    "distinct = distinct assemblies."
)
ASSUMPTIONS = [
    "names contain no tab/CR/LF, are non-empty and do not start with '#'; tags are non-empty words; header lines are non-empty and do not start with '#' or white space; adjacent scaffolds have different names",
    "coordinates in corrupted lines are clearly non-numeric tokens (Python int() leniencies such as '1_000' are not called corruptions)",
]


def real_parse(fmt, text):
    from tola.assembly.parser import parse_agp, parse_tpf

    asm = (parse_agp if fmt == "agp" else parse_tpf)(io.StringIO(text), "a")
    return {"header": list(asm.header), "scaffolds": dump_scaffolds(asm.scaffolds)}


class WriterChangedAssembly(Exception):
    pass


def real_format(fmt, plain):
    from tola.assembly.assembly import Assembly
    from tola.assembly.format import format_agp, format_tpf
    a = Assembly("a", header=list(plain["header"]), scaffolds=build_scaffolds(plain["scaffolds"]))
    before = (list(a.header), dump_scaffolds(a.scaffolds))
    out = io.StringIO()
    (format_agp if fmt == "agp" else format_tpf)(a, out)
    # a writer only reads: the assembly it was given is afterwards what it was before (it may be written again,
    # in the other format)
    after = (list(a.header), dump_scaffolds(a.scaffolds))
    if after != before:
        raise WriterChangedAssembly(f"format_{fmt} changed the assembly it was given: {after[1][:2]} was {before[1][:2]}")
    return out.getvalue()


def strip_tags(plain):
    return {"header": plain["header"], "scaffolds": [[n, [r if r[0] == "G" else [*r[:5], []] for r in rows]] for n, rows in plain["scaffolds"]]}


def first_diff(a, b):
    if a["header"] != b["header"]:
        return f"header {a['header']} vs {b['header']}"
    if [s[0] for s in a["scaffolds"]] != [s[0] for s in b["scaffolds"]]:
        return f"scaffold names {[s[0] for s in a['scaffolds']]} vs {[s[0] for s in b['scaffolds']]}"
    for (n, ra), (_, rb) in zip(a["scaffolds"], b["scaffolds"]):
        if ra != rb:
            k = next((i for i in range(min(len(ra), len(rb))) if ra[i] != rb[i]), min(len(ra), len(rb)))
            return f"scaffold {n} row {k}: {ra[k] if k < len(ra) else None} vs {rb[k] if k < len(rb) else None}"
    return None


def field_sig(a, b):
    d = first_diff(a, b) or ""
    if d.startswith("header"):
        return "header"
    if d.startswith("scaffold names"):
        return "scaffold-names"
    try:
        ra, rb = eval(d.split(": ", 1)[1].replace(" vs ", ", "))  # noqa: S307 - our own repr
    except Exception:  # noqa: BLE001
        return "rows"
    if ra is None or rb is None:
        return "row-count"
    if ra[0] != rb[0]:
        return "row-kind"
    if ra[0] == "G":
        return "gap-length" if ra[1] != rb[1] else "gap-type"
    return ["", "name", "start", "end", "strand", "tags"][next(i for i in range(1, 6) if ra[i] != rb[i])]


def i_starts_with_gap(plain):
    return any(rows and rows[0][0] == "G" for _, rows in plain["scaffolds"])


def check_assembly(ctx, plain, tpf_ok):
    ctx.case()
    case = {"kind": "asm", "asm": plain, "tpf_ok": tpf_ok}
    if sum(len(s[1]) for s in plain["scaffolds"]) >= 2:
        ctx.nontrivial(plain)
    for fmt in ("agp", "tpf") if tpf_ok else ("agp",):
        ref_mod = agp_ref if fmt == "agp" else tpf_ref
        want = plain if fmt == "agp" else strip_tags(plain)
        try:
            t1 = real_format(fmt, plain)
        except Exception as e:  # noqa: BLE001
            ctx.violation(f"{fmt}-format-raised-{type(e).__name__}", f"{e}\n{plain}", case)
            return
        canon = ref_mod.format(plain)
        if t1 != canon:
            ctx.violation(f"{fmt}-formatter-differs-from-reference", f"real:\n{t1[:500]}\nreference:\n{canon[:500]}", case)
            return
        try:
            back = real_parse(fmt, t1)
        except Exception as e:  # noqa: BLE001
            ctx.violation(f"{fmt}-parse-of-own-output-raised-{type(e).__name__}", f"{e}\ntext:\n{t1[:600]}", case)
            return
        if back != want:
            ctx.violation(f"{fmt}-roundtrip-{field_sig(want, back)}", f"{first_diff(want, back)}\ntext:\n{t1[:600]}", case)
            return
        t2 = real_format(fmt, back)
        if t2 != t1:
            ctx.violation(f"{fmt}-reformat-not-byte-identical", f"first:\n{t1[:400]}\nsecond:\n{t2[:400]}", case)
            return
        nlines = sum(1 for l in t1.split("\n") if l.strip() and not l.startswith("#"))
        if nlines != sum(len(s[1]) for s in back["scaffolds"]):
            ctx.violation(f"{fmt}-row-count-differs-from-line-count", f"{nlines} lines", case)
            return
        ctx.count(f"roundtrip-ok:{fmt}")
    if not tpf_ok and i_starts_with_gap(plain):
        # one assembly object written twice, first as TPF (which cannot carry its leading gap - whatever that
        # writer does about it), then as AGP: the AGP is still the AGP of the assembly
        from tola.assembly.assembly import Assembly
        from tola.assembly.format import format_agp, format_tpf

        a = Assembly("a", header=list(plain["header"]), scaffolds=build_scaffolds(plain["scaffolds"]))
        try:
            format_tpf(a, io.StringIO())
        except Exception:  # noqa: BLE001 - refusing is the writer's right
            ctx.count("note:tpf-writer-refused-leading-gap")
        out = io.StringIO()
        format_agp(a, out)
        ctx.count("same-object-written-as-tpf-then-agp")
        if out.getvalue() != agp_ref.format(plain):
            ctx.violation("agp-of-an-object-differs-after-it-was-written-as-tpf", f"got:\n{out.getvalue()[:400]}\nwant:\n{agp_ref.format(plain)[:400]}", case)
            return
    if tpf_ok:
        # (iv) AGP -> TPF -> AGP drops only tags
        a1 = real_parse("agp", real_format("agp", plain))
        t_tpf = real_format("tpf", a1)
        a2 = real_parse("tpf", t_tpf)
        t_agp = real_format("agp", a2)
        if t_agp != agp_ref.format(strip_tags(plain)):
            ctx.violation("agp-tpf-agp-changes-more-than-tags", f"{first_diff(strip_tags(plain), real_parse('agp', t_agp))}", case)
            return
        gts = {r[2] for s in plain["scaffolds"] for r in s[1] if r[0] == "G"}
        for g in gts:
            ctx.count(f"gap-type:{g}")
        ctx.count("agp-tpf-agp-ok")
    if len(ctx.samples) < 2 and tpf_ok and any(r[0] == "G" for s in plain["scaffolds"] for r in s[1]):
        ctx.sample({"assembly": plain, "agp": agp_ref.format(plain)[:600], "tpf": tpf_ref.format(plain)[:400]})


def check_corruption(ctx, text, fmt, kind):
    ctx.case()
    ref_mod = agp_ref if fmt == "agp" else tpf_ref
    case = {"kind": "text", "text": text, "fmt": fmt, "corruption": kind}
    try:
        want, acct = ref_mod.parse(text)
        ref_err = None
    except agp_ref.Invalid as e:
        want = None
        ref_err = str(e)
    try:
        got = real_parse(fmt, text)
        err = None
    except Exception as e:  # noqa: BLE001 - an error is an allowed outcome for every line
        got = None
        err = e
    ctx.count(f"corruption:{kind}:{'ref-invalid' if ref_err else 'ref-valid'}:{'raised' if err else 'parsed'}")
    if ref_err and err is None:
        ctx.violation(
            f"{fmt}-invalid-line-accepted:{kind}:{ref_err.split(':')[0].replace(' ', '-')}",
            f"reference: {ref_err}; real parser returned {sum(len(s[1]) for s in got['scaffolds'])} rows\ntext:\n{text[:700]}",
            case,
        )
        return
    if not ref_err and err is None:
        if fmt == "tpf":
            want = strip_tags(want)
        if got != want:
            nrows_g = sum(len(s[1]) for s in got["scaffolds"])
            nrows_w = sum(len(s[1]) for s in want["scaffolds"])
            sig = "line-skipped-or-merged" if nrows_g != nrows_w else "row-re-homed-or-altered"
            ctx.violation(f"{fmt}-line-accounting:{sig}:{kind}", f"{first_diff(want, got)}\ntext:\n{text[:700]}", case)
            return
        ctx.count("line-accounting-ok")


def check_cli(ctx, plain, rng, scratch):
    from vf import cli_runs

    ctx.case()
    d = Path(scratch)
    case = {"kind": "cli", "asm": plain}
    agp = agp_ref.format(plain)
    tpf = tpf_ref.format(plain)
    mode = rng.choice(["agp2tpf", "tpf2agp", "stdin", "override", "crlf", "outfile", "multi", "multi", "out-override", "no-final-newline", "upper-ext"])
    ctx.count(f"cli:{mode}")
    qc = ["--qc-overlaps"] if rng.random() < 0.4 else []  # its report belongs on stderr: stdout stays the assembly text
    if qc:
        ctx.count("cli:with-qc-overlaps")
        # make sure there is something to report: one contig placed twice, overlapping
        plain = {"header": plain["header"], "scaffolds": [*plain["scaffolds"], ["ovl_sc", [["F", "ovl_ctg", 1, 10, 1, []], ["F", "ovl_ctg", 5, 20, 1, []]]]]}
        agp = agp_ref.format(plain)
        tpf = tpf_ref.format(plain)
    if mode == "agp2tpf":
        (d / "a.agp").write_text(agp)
        r = cli_runs.run_asm_format([d / "a.agp", "-f", "TPF", *qc])
        want = tpf
    elif mode == "tpf2agp":
        (d / "a.tpf").write_text(tpf)
        r = cli_runs.run_asm_format([d / "a.tpf", *qc])
        want = agp_ref.format(strip_tags(plain))
    elif mode == "stdin":
        r = cli_runs.run_asm_format(["-i", "TPF", "-f", "TPF", *qc], stdin=tpf)
        want = tpf
    elif mode == "override":
        (d / "x.agp").write_text(tpf)  # extension lies, -i overrides
        r = cli_runs.run_asm_format([d / "x.agp", "-i", "TPF", "-f", "AGP"])
        want = agp_ref.format(strip_tags(plain))
    elif mode == "crlf":
        # (read back from an output file, as bytes: the test runner's captured stdout normalises line ends)
        if rng.random() < 0.5 or not tpf.strip():
            (d / "c.agp").write_bytes(agp.replace("\n", "\r\n").encode())
            r = cli_runs.run_asm_format([d / "c.agp", "-f", "AGP", "-o", d / "crlf.out"])
            want = agp
        else:
            (d / "c.tpf").write_bytes(tpf.replace("\n", "\r\n").encode())
            r = cli_runs.run_asm_format([d / "c.tpf", "-f", "TPF", "-o", d / "crlf.out"])
            want = tpf
        outfile = d / "crlf.out"
        if plain["header"]:
            ctx.count("cli:crlf-input-with-header-lines")
    elif mode == "out-override":
        # an explicit -f wins over what the name of the output file suggests
        (d / "a.agp").write_text(agp)
        fmt_out, name = rng.choice([("TPF", "o.agp"), ("TPF", "o.agp_converted"), ("AGP", "o.tpf"), ("AGP", "o.tpf2agp"), ("TPF", "o.fa.txt")])
        r = cli_runs.run_asm_format([d / "a.agp", "-f", fmt_out, "-o", d / name])
        want = tpf if fmt_out == "TPF" else agp
        outfile = d / name
    elif mode == "upper-ext":
        # formats are recognised from file extensions in any letter case
        iname, oname = rng.choice([("A.AGP", "O.TPF"), ("a.Agp", "o.Tpf"), ("A.AGP", "o.tpf")])
        (d / iname).write_text(agp)
        r = cli_runs.run_asm_format([d / iname, "-o", d / oname])
        want = tpf
        outfile = d / oname
        (d / iname).unlink()
    elif mode == "no-final-newline":
        (d / "n.tpf").write_text(tpf[:-1])
        r = cli_runs.run_asm_format([d / "n.tpf", "-f", "TPF"])
        want = tpf
    elif mode == "multi":
        # several input files of different formats in one invocation: each by its own extension
        s1, s2 = ("m1", "m2") if rng.random() < 0.5 else ("same", "same")  # equal stems: still two inputs
        (d / f"{s1}.agp").write_text(agp)
        (d / f"{s2}.tpf").write_text(tpf)
        order = [d / f"{s1}.agp", d / f"{s2}.tpf"] if rng.random() < 0.5 else [d / f"{s2}.tpf", d / f"{s1}.agp"]
        if s1 == "same":
            ctx.count("cli:multi-same-stem")
        if rng.random() < 0.5:
            # ... into one output file: it holds what all the inputs gave, in order
            r = cli_runs.run_asm_format([*order, "-f", "TPF", "-o", d / "multi.out"])
            outfile = d / "multi.out"
            mode = "multi-outfile"
            ctx.count("cli:multi-outfile")
        else:
            r = cli_runs.run_asm_format([*order, "-f", "TPF"])
        want = tpf + tpf
    else:
        (d / "a.agp").write_text(agp)
        r = cli_runs.run_asm_format([d / "a.agp", "-o", d / "o.tpf"])
        want = tpf
    if r["exit_code"] != 0:
        ctx.violation(f"asm-format-failed:{mode}", f"exit {r['exit_code']} {r['exception']!r} {r['stderr'][-300:]}", case)
        return
    if mode in ("out-override", "upper-ext", "multi-outfile", "crlf"):
        got = outfile.read_bytes().decode() if outfile.exists() else "<no output file>"
        outfile.unlink(missing_ok=True)
    else:
        got = (d / "o.tpf").read_text() if mode == "outfile" else r["stdout"]
    if got != want:
        ctx.violation(f"asm-format-output-differs:{mode}", f"got:\n{got[:400]}\nwant:\n{want[:400]}", case)
        return
    ctx.count("cli:ok")


def run(shard, ctx):
    scratch = os.environ.get("VERIF_SHARD_SCRATCH", ".")
    for i in range(shard["n"]):
        rng = rng_for(shard["seed"], "c05", shard["index"], i)
        tpf_ok = rng.random() < 0.5
        plain = gtext.gen_assembly(rng, tpf_ok)
        check_assembly(ctx, plain, tpf_ok)
        fmt = "tpf" if tpf_ok and rng.random() < 0.6 else "agp"
        canon = (tpf_ref if fmt == "tpf" else agp_ref).format(plain)
        text, kind = gtext.corrupt(rng, canon, fmt)
        check_corruption(ctx, text, fmt, kind)
        if tpf_ok and i % 10 == 0:
            check_cli(ctx, plain, rng, scratch)


def replay(case, ctx):
    if case["kind"] == "asm":
        check_assembly(ctx, case["asm"], case["tpf_ok"])
    elif case["kind"] == "text":
        check_corruption(ctx, case["text"], case["fmt"], case["corruption"])
    else:
        check_cli(ctx, case["asm"], rng_for(0, "replay"), os.environ.get("VERIF_SHARD_SCRATCH", "."))


def plan(tier, seed):
    n, per = (16, 2500) if tier == "quick" else (16, 32000)
    return [{"kind": "text", "n": per} for _ in range(n)]


def gates(c, tier):
    need = {
        "roundtrip-ok:agp": 5000,
        "roundtrip-ok:tpf": 2000,
        "agp-tpf-agp-ok": 2000,
        "line-accounting-ok": 1000,
        "gap-type:scaffold": 100,
        "gap-type:contig": 100,
        "gap-type:short_arm": 100,
        "cli:ok": 200,
        "cli:out-override": 20,
        "cli:upper-ext": 20,
        "cli:multi-outfile": 20,
        "cli:multi-same-stem": 20,
        "cli:with-qc-overlaps": 50,
        "cli:no-final-newline": 20,
        "cli:crlf-input-with-header-lines": 10,
        "same-object-written-as-tpf-then-agp": 300,
        "corruption:no-final-newline:ref-valid:parsed": 300,
    }
    out = [f"{k}>={v} (got {c.get(k, 0)})" for k, v in need.items() if c.get(k, 0) < v]
    for kind in ("drop-column", "bad-strand", "non-numeric", "reversed", "field-count", "gap-first", "truncated-line", "tabs-to-blanks"):
        if not any(k.startswith(f"corruption:{kind}:ref-invalid:raised") for k in c):
            out.append(f"corruption:{kind} rejected >= 1")
    return out
