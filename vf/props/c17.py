"""C17  Outputs are a deterministic function of the input files.

Differential observer (M7): byte equality of every output file between a
reference run and runs that differ in exactly one axis: PYTHONHASHSEED (real
subprocesses), working directory, stream buffer size, FASTA index cache cold
vs warm, history of earlier invocations in the same interpreter; format leg:
the same assembly supplied as FASTA, AGP and TPF gives the same output rows.
asm-format and the 12 real specimens are part of the corpus.
"""

import os
import shutil
from pathlib import Path

from vf import env
from vf.core import rng_for
from vf.ref import agp_ref

ID = "C17"
LEVEL = "exploration"
RULE = (
    "case = one generated (input, Pretext map) pair [FASTA or TPF/AGP input; PretextView-model, designed-tag or "
    "two-haplotype maps with several special tags per scaffold] or one of the 12 specimens, run as reference and then "
    "along each axis: PYTHONHASHSEED in {1,2,31337,random} as subprocesses, another cwd, stream buffer in {1,7,61,1000}, "
    "cache cold then warm, in-process history A,B,A, fresh interpreter; format leg FASTA vs AGP vs TPF input of one "
    "assembly; asm-format under two hash seeds. All output files are compared byte for byte. Non-trivial = run that "
    "wrote >=3 files; distinct = distinct input file sets."
)
ASSUMPTIONS = ["all runs of one case write into the same directory (emptied between runs), so absolute paths printed in logs are identical by construction"]


def snapshot(cr):
    from vf import cli_runs

    return cli_runs.output_files(cr)


def diff_files(a, b):
    names = sorted(set(a) | set(b))
    return [n for n in names if a.get(n) != b.get(n)]


def run_variant(cr, out_name, ctx, label, **kw):
    from vf import cli_runs

    cli_runs.release_logging() if kw.get("inproc", True) and not kw.get("keep_handlers") else None
    cli_runs.clear_outputs(cr)
    # the most talkative log level for a third of the cases (decided by the case, so that all variants agree)
    extra = ["--write-log"] + (["--log-level", "DEBUG"] if cr.get("t") and int(cr["t"] * 1000) % 3 == 0 else [])
    res = cli_runs.run_pretext_to_asm(cr, out_name, extra, **kw)
    return res["exit_code"], snapshot(cr), res


def compare(ctx, ref, got, axis, case):
    ctx.count(f"axis:{axis}")
    if ref[0] != got[0]:
        ctx.violation(f"exit-status-depends-on-{axis}", f"{ref[0]} vs {got[0]}\nstderr={got[2]['stderr'][-400:]}", case)
        return False
    d = diff_files(ref[1], got[1])
    if d:
        n = d[0]
        a, b = ref[1].get(n), got[1].get(n)
        where = ""
        if a is not None and b is not None:
            k = next((i for i in range(min(len(a), len(b))) if a[i] != b[i]), min(len(a), len(b)))
            where = f" first difference at byte {k}: {a[max(0, k - 60):k + 60]!r} vs {b[max(0, k - 60):k + 60]!r}"
        kind = "log" if n.endswith(".log") else "yaml" if n.endswith(".yaml") else "csv" if n.endswith(".csv") else "assembly-file"
        ctx.violation(f"output-depends-on-{axis}:{kind}", f"files differ: {d}{where}", case)
        return False
    return True


def patched_buffer(bs):
    """context manager: FastaIndex default buffer size -> bs (in process)."""
    import contextlib

    from tola.fasta.index import FastaIndex

    @contextlib.contextmanager
    def cm():
        orig = FastaIndex.__init__

        def init(self, fasta_file, buffer_size=bs):
            orig(self, fasta_file, buffer_size)

        FastaIndex.__init__ = init
        try:
            yield
        finally:
            FastaIndex.__init__ = orig

    return cm()


def check_case(ctx, cr, out_name, rng, other_cr=None, subprocess_seeds=(1, 31337)):
    from vf import cli_runs

    ctx.case()
    case = cli_runs.case_of(cr, {"out_name": out_name})
    is_fasta = cr["fasta_bytes"] is not None
    if is_fasta:
        for q in ("input.fa.fai", "input.fa.agp"):
            (cr["dir"] / q).unlink(missing_ok=True)
    if is_fasta and rng.random() < 0.5:
        # the same path held another file a moment ago, in this very process (a pipeline that indexes several
        # versions of an assembly under one name): nothing of it may be remembered - the fresh interpreters
        # further down know nothing about it and must write the same
        fa = cr["assembly_file"]
        orig = fa.read_bytes()
        st0 = fa.stat()
        fa.write_bytes(orig.replace(b"A", b"N").replace(b"a", b"n"))
        os.utime(fa, (st0.st_atime, st0.st_mtime))
        run_variant(cr, out_name, ctx, "other-content-at-same-path")
        fa.write_bytes(orig)
        os.utime(fa, (st0.st_atime, st0.st_mtime))
        for q in ("input.fa.fai", "input.fa.agp"):
            (cr["dir"] / q).unlink(missing_ok=True)
        ctx.count("axis:other-content-at-the-same-path-earlier-in-process")
    ref = run_variant(cr, out_name, ctx, "ref")  # cold cache
    if len(ref[1]) >= 3:
        ctx.nontrivial(case["files"])
    ctx.count("reference-runs:" + ("completed" if ref[0] == 0 else "error-exit"))
    ok = True
    if is_fasta:
        ok &= compare(ctx, ref, run_variant(cr, out_name, ctx, "warm"), "cache-warm-vs-cold", case)
        for bs in rng.sample([1, 7, 61, 1000], 2):
            with patched_buffer(bs):
                ok &= compare(ctx, ref, run_variant(cr, out_name, ctx, "buffer"), "stream-buffer-size", case)
            # buffer also while (re)building the cache
            for q in ("input.fa.fai", "input.fa.agp"):
                (cr["dir"] / q).unlink(missing_ok=True)
            with patched_buffer(bs):
                ok &= compare(ctx, ref, run_variant(cr, out_name, ctx, "buffer-cold"), "stream-buffer-size", case)
    other = cr["dir"].parent / (cr["dir"].name + "-cwd")
    other.mkdir(exist_ok=True)
    ok &= compare(ctx, ref, run_variant(cr, out_name, ctx, "cwd", cwd=str(other)), "working-directory", case)
    if is_fasta:
        # out-of-date cache files (the indexer then has something to say about them in the log), files named
        # by absolute path from one directory and by relative path from another
        fa = cr["assembly_file"]

        def outdate():
            t = fa.stat().st_mtime - 10  # (the caches are moved back; the FASTA keeps its time)
            for sfx in (".fai", ".agp"):
                if Path(str(fa) + sfx).exists():
                    os.utime(str(fa) + sfx, (t, t))

        outdate()
        a_ = run_variant(cr, out_name, ctx, "stale-abs")
        outdate()
        b_ = run_variant(cr, out_name, ctx, "stale-rel", cwd=str(other), relative=True)
        ok &= compare(ctx, a_, b_, "working-directory-and-relative-paths", case)
    shutil.rmtree(other, ignore_errors=True)
    if other_cr is not None:
        # history: A, B, A in this interpreter (logging handlers left exactly as the tool leaves them)
        cli_runs.run_pretext_to_asm(other_cr, "b.agp", ["--write-log"], keep_handlers=True)
        got = run_variant(cr, out_name, ctx, "history", keep_handlers=True)
        ok &= compare(ctx, ref, got, "earlier-runs-in-process", case)
        # ... and a later invocation must not alter what this one wrote: B without a log file, B to stdout
        for extra in (["--no-write-log"], None):
            if extra is None:
                cli_runs.run_pretext_to_asm(other_cr, None, [], keep_handlers=True)
            else:
                cli_runs.run_pretext_to_asm(other_cr, "b2.agp", extra, keep_handlers=True)
            ctx.count("axis:later-runs-in-process")
            after = (got[0], snapshot(cr), got[2])
            ok &= compare(ctx, got, after, "later-runs-in-process", case)
        cli_runs.release_logging()
    for n_hs, hs in enumerate(subprocess_seeds):
        # (the second fresh interpreter also runs with assertions compiled away, python -O)
        got = run_variant(cr, out_name, ctx, "hash", inproc=False, hashseed=str(hs), env_extra={"PYTHONOPTIMIZE": "1"} if n_hs else None)
        ok &= compare(ctx, ref, got, "hash-seed-or-fresh-interpreter", case)
    if ok:
        ctx.count("deterministic-ok")
        if len(ctx.samples) < 2:
            ctx.sample({"files": sorted(ref[1]), "axes": "cache, buffer, cwd, history, hashseed", "labels": cr.get("labels", [])[:8]})


def format_leg(ctx, rng, scratch, i):
    """same assembly as FASTA, AGP and TPF -> same output rows"""
    from vf import cli_runs
    from vf.ref import tpf_ref

    d = scratch / f"f{i}"
    cr = cli_runs.fasta_case(rng, d / "fa", tagged=rng.random() < 0.5, region_names=(i % 3 == 0))
    ctx.case()
    if "in:region-style-names" in cr["labels"]:
        ctx.count("format-leg:region-style-names")
    outs = {}
    try:
        for fmt in ("fa", "agp", "tpf"):
            sub = d / fmt
            sub.mkdir(parents=True, exist_ok=True)
            if fmt != "fa":
                asm = {"header": [], "scaffolds": cr["input"]}
                f = sub / f"input.{fmt}"
                f.write_text(agp_ref.format(asm) if fmt == "agp" else tpf_ref.format(asm))
                shutil.copy(cr["dir"] / "pretext.agp", sub / "pretext.agp")
                c2 = {**cr, "dir": sub, "assembly_file": f, "pretext_file": sub / "pretext.agp", "fasta_bytes": None}
            else:
                c2 = cr
            res = cli_runs.run_pretext_to_asm(c2, "out.agp", ["--no-write-log"])
            files = {n: b for n, b in cli_runs.output_files(c2).items() if n.endswith(".agp")}
            outs[fmt] = (res["exit_code"], {n: agp_ref.parse(b.decode())[0]["scaffolds"] for n, b in files.items()})
        case = cli_runs.case_of(cr, {"format_leg": True})
        ctx.nontrivial(case["files"])
        for fmt in ("agp", "tpf"):
            ctx.count("axis:input-format")
            if outs[fmt] != outs["fa"]:
                d_ = [n for n in set(outs[fmt][1]) | set(outs["fa"][1]) if outs[fmt][1].get(n) != outs["fa"][1].get(n)]
                ctx.violation(f"output-rows-depend-on-input-format:{fmt}-vs-fasta", f"exit {outs[fmt][0]} vs {outs['fa'][0]}; files {d_}", case)
                return
        ctx.count("format-leg-ok")
    finally:
        shutil.rmtree(d, ignore_errors=True)


def specimen_leg(ctx, spec_dir, scratch):
    from vf import cli_runs

    name = spec_dir.name
    import re

    version = ""
    m = re.search(r"_(\d+)$", name)
    base = name
    if m:
        version = "." + m.group(1)
        base = name[: -len(m.group(0))]
    d = scratch / f"spec-{name}"
    d.mkdir(parents=True, exist_ok=True)
    cr = {"dir": d, "assembly_file": spec_dir / f"{base}-input{version}.tpf", "pretext_file": spec_dir / f"{base}-pretext{version}.agp", "fasta_bytes": None, "prefix": "SUPER_"}
    ctx.case()
    out_name = f"{base}-out{version}.tpf"
    ref = run_variant(cr, out_name, ctx, "ref")
    ctx.nontrivial(["specimen", name])
    case = {"kind": "specimen", "name": name}
    ok = compare(ctx, ref, run_variant(cr, out_name, ctx, "again"), "earlier-runs-in-process", case)
    ok &= compare(ctx, ref, run_variant(cr, out_name, ctx, "hash", inproc=False, hashseed="2"), "hash-seed-or-fresh-interpreter", case)
    if ok:
        ctx.count("specimens-ok")
    shutil.rmtree(d, ignore_errors=True)


def asm_format_leg(ctx, rng, scratch, i):
    from vf import cli_runs
    from vf.gen import text as gtext

    plain = gtext.gen_assembly(rng, tpf_ok=True)
    p = scratch / f"af{i}.agp"
    p.write_text(agp_ref.format(plain))
    # several input files on one command line: processed in command-line order
    more = []
    for k in range(rng.randint(1, 3)):
        q = scratch / f"af{i}-{rng.choice('abcxyz')}{k}.agp"
        q.write_text(agp_ref.format(gtext.gen_assembly(rng, tpf_ok=True)))
        more.append(q)
    files = [p, *more]
    rng.shuffle(files)
    ctx.case()
    outs = []
    for hs, inproc in (("0", True), ("1", False), ("4242", False), ("7", False)):
        r = cli_runs.run_asm_format([*files, "-f", "TPF", "--qc-overlaps"], inproc=inproc) if inproc else _asm_format_sub(files, hs)
        outs.append((r["exit_code"], r["stdout"], r["stderr"]))
    ctx.count("axis:asm-format-hash-seed")
    ctx.nontrivial(["asm-format", plain])
    if len(set(outs)) != 1:
        ctx.violation("asm-format-output-depends-on-hash-seed-or-interpreter", f"{outs}", {"kind": "asm-format", "asm": plain})
    else:
        ctx.count("asm-format-ok")
    # the same command twice into the same output file: the second run leaves the same bytes
    outp = scratch / f"af{i}.out.tpf"
    twice = []
    for _ in range(2):
        cli_runs.run_asm_format([p, "-f", "TPF", "-o", outp])
        twice.append(outp.read_bytes() if outp.exists() else None)
    outp.unlink(missing_ok=True)
    ctx.count("axis:asm-format-run-again-into-same-file")
    if twice[0] != twice[1] or twice[0] is None:
        ctx.violation("asm-format-output-depends-on-earlier-run-into-the-same-file", f"first {len(twice[0] or b'')} bytes, second {len(twice[1] or b'')} bytes", {"kind": "asm-format", "asm": plain})
    # the same file named in different ways from different directories: every output format says the same
    sub = scratch / f"af{i}-dir"
    sub.mkdir(exist_ok=True)
    named = []
    old_cwd = os.getcwd()
    try:
        for cwd, arg in ((scratch, p.name), (sub, os.path.join("..", p.name)), (sub, str(p))):
            os.chdir(cwd)
            for fmt_ in ("STR", "REPR", "AGP"):
                r = cli_runs.run_asm_format([arg, "-f", fmt_])
                named.append((fmt_, r["exit_code"], r["stdout"]))
    finally:
        os.chdir(old_cwd)
        sub.rmdir()
    ctx.count("axis:asm-format-file-named-from-another-directory")
    for fmt_ in ("STR", "REPR", "AGP"):
        if len({x[1:] for x in named if x[0] == fmt_}) != 1:
            ctx.violation(f"asm-format-output-depends-on-working-directory:{fmt_}", f"{[x[2][:80] for x in named if x[0] == fmt_]}", {"kind": "asm-format", "asm": plain})
            break
    # the same assembly given as AGP and as TPF (blank lines sprinkled between its lines; also as the second file
    # after one of the other format) comes out as the same TPF
    from vf.ref import tpf_ref

    lines = [x + "\n" for x in tpf_ref.format(plain).split("\n") if x]  # (not splitlines(): names may hold \x0b, \x1c, \u2028 ...)
    if lines:
        for _ in range(rng.randint(1, 4)):
            lines.insert(rng.randint(1, len(lines)), rng.choice(["\n", "   \n", "\t\n"]))
        pt_ = scratch / f"af{i}.tpf"
        pt_.write_text("".join(lines))
        a_ = cli_runs.run_asm_format([p, "-f", "TPF"])
        t_ = cli_runs.run_asm_format([pt_, "-f", "TPF"])
        both = cli_runs.run_asm_format([more[0], pt_, "-f", "TPF"])
        first_ = cli_runs.run_asm_format([more[0], "-f", "TPF"])
        as_agp = cli_runs.run_asm_format([pt_, "-f", "AGP"])
        want_agp = agp_ref.format({"header": plain["header"], "scaffolds": [[n_, [r_ if r_[0] == "G" else [*r_[:5], []] for r_ in rows_]] for n_, rows_ in plain["scaffolds"]]})
        pt_.unlink()
        if (as_agp["exit_code"], as_agp["stdout"]) != (0, want_agp):
            ctx.violation("asm-format-output-depends-on-input-format:tpf-with-blank-lines-to-agp", f"exit {as_agp['exit_code']}\n got {as_agp['stdout'][:300]!r}\nwant {want_agp[:300]!r}", {"kind": "asm-format", "asm": plain})
        ctx.count("axis:asm-format-input-format")
        if (a_["exit_code"], a_["stdout"]) != (t_["exit_code"], t_["stdout"]):
            ctx.violation("asm-format-output-depends-on-input-format", f"AGP input: exit {a_['exit_code']} {a_['stdout'][:200]!r}\nTPF input: exit {t_['exit_code']} {t_['stdout'][:200]!r}", {"kind": "asm-format", "asm": plain})
        elif (both["exit_code"], both["stdout"]) != (0 if not (first_["exit_code"] or t_["exit_code"]) else both["exit_code"], first_["stdout"] + t_["stdout"]):
            ctx.violation("asm-format-output-depends-on-the-file-given-before", f"second of two files: exit {both['exit_code']}, {len(both['stdout'])} bytes; alone: {len(first_['stdout'])} + {len(t_['stdout'])} bytes", {"kind": "asm-format", "asm": plain})
    for q in files:
        q.unlink()


def _asm_format_sub(files, hs):
    import subprocess

    cp = subprocess.run([env.PYTHON, "-m", "tola.assembly.scripts.asm_format", *[str(f) for f in files], "-f", "TPF", "--qc-overlaps"], env=env.child_env(hashseed=hs), stdout=subprocess.PIPE, stderr=subprocess.PIPE, timeout=300)
    return {"exit_code": cp.returncode, "stdout": cp.stdout.decode(), "stderr": cp.stderr.decode()}


def run(shard, ctx):
    from vf import cli_runs

    scratch = Path(os.environ.get("VERIF_SHARD_SCRATCH", "."))
    if shard["kind"] == "specimens":
        for name in shard["names"]:
            specimen_leg(ctx, env.REPO / "tests" / "data" / name, scratch)
        return
    for i in range(shard["n"]):
        rng = rng_for(shard["seed"], "c17", shard["index"], i)
        k = i % 4
        if k == 3:
            format_leg(ctx, rng, scratch, i)
            asm_format_leg(ctx, rng, scratch, i)
            continue
        if k == 0:
            cr = cli_runs.fasta_case(rng, scratch / f"c{i}", tagged=True, two_hap=rng.random() < 0.4)
            out_name = "out.fa"
        elif k == 1:
            cr = cli_runs.text_case(rng, scratch / f"c{i}", fmt="tpf", tagged=True, two_hap=rng.random() < 0.5)
            out_name = "out.2.tpf"
        else:
            cr = cli_runs.text_case(rng, scratch / f"c{i}", fmt="agp", tagged=rng.random() < 0.5)
            out_name = "out.agp"
        other = cli_runs.text_case(rng, scratch / f"o{i}", fmt="agp", tagged=True, two_hap=True)
        try:
            seeds = (1, rng.choice([2, 31337, rng.randint(3, 10**6)])) if shard["tier"] == "quick" else (1, 2, 31337, rng.randint(3, 10**6))
            if i % 2 == 1:
                # several special tags on one Pretext scaffold: tag sets are iterated while naming
                cli_runs.add_tag_noise(rng, cr)
                ctx.count("cases:tag-noise")
                seeds = (1, 2, 3, 4, 5, 6) if shard["tier"] == "quick" else tuple(range(1, 13))
            check_case(ctx, cr, out_name, rng, other, seeds)
        finally:
            cli_runs.cleanup(cr)
            cli_runs.cleanup(other)


def replay(case, ctx):
    from vf import cli_runs

    scratch = Path(os.environ.get("VERIF_SHARD_SCRATCH", "."))
    if case.get("kind") == "specimen":
        specimen_leg(ctx, env.REPO / "tests" / "data" / case["name"], scratch)
    elif case.get("kind") == "cli":
        cr = cli_runs.restore_case(case, scratch / "replay")
        check_case(ctx, cr, case.get("out_name", "out.agp"), rng_for(0, "replay"), None, (1, 2, 31337))


def plan(tier, seed):
    specs = sorted(p.name for p in (env.REPO / "tests" / "data").iterdir() if p.is_dir())
    n, per = (13, 12) if tier == "quick" else (13, 48)
    sh = [{"kind": "gen", "n": per} for _ in range(n)]
    big = [s for s in specs if s.startswith(("ilLyo", "ngHel"))]
    rest = [s for s in specs if s not in big]
    sh += [{"kind": "specimens", "names": [b]} for b in big]
    sh += [{"kind": "specimens", "names": rest[0::2]}, {"kind": "specimens", "names": rest[1::2]}]
    return sh


def gates(c, tier):
    need = {
        "deterministic-ok": 25,
        "axis:hash-seed-or-fresh-interpreter": 80,
        "axis:cache-warm-vs-cold": 8,
        "axis:stream-buffer-size": 30,
        "axis:working-directory": 25,
        "axis:earlier-runs-in-process": 35,
        "axis:later-runs-in-process": 30,
        "axis:input-format": 15,
        "format-leg-ok": 8,
        "format-leg:region-style-names": 2,
        "axis:working-directory-and-relative-paths": 10,
        "axis:other-content-at-the-same-path-earlier-in-process": 10,
        "asm-format-ok": 8,
        "axis:asm-format-run-again-into-same-file": 8,
        "axis:asm-format-file-named-from-another-directory": 8,
        "specimens-ok": 12,
        "cases:tag-noise": 20,
    }
    return [f"{k}>={v} (got {c.get(k, 0)})" for k, v in need.items() if c.get(k, 0) < v]
