"""C10  Chromosome, unloc and haplotig names are unique and ranked by size.

Oracle: output self-consistency (uniqueness, numbering without holes,
non-increasing sizes, order, CSV lines) + designed names (name tags, unlocs
under their own chromosome, homologues sharing a number).
"""

import csv
import io
import os
import re
from collections import defaultdict
from pathlib import Path

from vf import workloads
from vf.core import rng_for
from vf.gen import tag as gtag
from vf.props import c09
from vf.ref import layout_ref

ID = "C10"
LEVEL = "exploration"
RULE = (
    "case = designed tagging (G-tag) incl. equal-size chromosomes, >9 chromosomes, 0..k unlocs and haplotigs, sex/B/"
    "nematode name tags, prefixes SUPER_/CHR/RL_, one or two haplotypes with homologue groups, Singleton and Primary; "
    "default class guarantees every painted scaffold a localised piece whose core holds contig bases; the separate "
    "'vanishing chromosome' shard drops that guarantee (known finding D9 is matched there only). Checked on every "
    "completed run: name uniqueness per assembly, autosome numbers 1..N without holes and non-increasing sequence "
    "length, name-tagged and unloc names, H_1..H_n, write order, chromosome.list.csv and chr_report.csv lines. "
    "Non-trivial = >=2 painted scaffolds or an unloc/haplotig piece; distinct = distinct (input, pretext, t)."
)
ASSUMPTIONS = [
    "input names are outside the generated namespaces (<prefix>.., H_.., Scaffold_..) as the property allows",
    "haplotig order accepted under total or sequence length; hole checks on unloc/H numbering only when every such piece holds contig bases in its core",
    "never W together with W1 (a name tag that is a digit-extended prefix of another)",
]

NONCURATED = {"Haplotig", "Contaminant", "FalseDuplicate"}


def seq_len(rows):
    return sum(r[3] - r[2] + 1 for r in rows if r[0] == "F")


def tot_len(rows):
    return sum((r[3] - r[2] + 1) if r[0] == "F" else r[1] for r in rows)


def classify(name, prefix, nametags):
    """-> (class, n, letter, tag, unloc k) ; class 1 autosome, 2 named, 3 unplaced"""
    m = re.fullmatch(re.escape(prefix) + r"(\d+)([A-Z]?)(?:_unloc_(\d+))?", name)
    if m:
        return 1, int(m.group(1)), m.group(2), None, int(m.group(3)) if m.group(3) else 0
    m = re.fullmatch(re.escape(prefix) + r"(.+?)(?:_unloc_(\d+))?", name)
    if m and m.group(1) in nametags:
        return 2, None, "", m.group(1), int(m.group(2)) if m.group(2) else 0
    return 3, None, "", None, 0


def oracle(case, outcome, ctx):
    ctx.case()
    design = case["design"]
    prefix = design["prefix"]
    vanish = case["gen"] == "vanish"
    stripped = {k: v for k, v in case.items() if k != "labels"}
    desc = f"t={case['t']} prefix={prefix} haps={design.get('haps')} gen={case['gen']}\npretext={case['pretext']}"
    if not outcome["ok"]:
        e = outcome["exc"]
        if vanish or "tag:haplotig-slivers" in case["labels"]:
            ctx.count(f"vanish-or-sliver-error:{e['type']}@{e['fn']}")  # hostile extras: an error is an allowed outcome
            return
        ctx.violation(f"designed-tagging-raised-{e['type']}@{e['fn']}", f"{e['msg'][:500]}\n{desc}", stripped)
        return
    out = outcome["out"]
    pieces = case["pieces"]
    nametags = {pc["nametag"] for pc in pieces if pc.get("nametag")}
    if sum(1 for pc in pieces if pc["kind"] in ("unloc", "htig")) or len({pc["chrom"] for pc in pieces if pc.get("chrom") is not None}) >= 2:
        ctx.nontrivial([case["input"], case["pretext"], case["t"]])
    errs = []

    def err(sig, msg):
        errs.append((sig, msg))

    # the result is asked for a second time from the same object (once to write, once for a report):
    # same assemblies, same names in the same order
    ba = outcome.get("ba")
    if ba is not None and hash(str(case.get("id"))) % 3 == 0:
        from vf.core import dump_assemblies

        try:
            again = dump_assemblies(ba.assemblies_with_scaffolds_fused())
            n1 = [(str(k), [s_[0] for s_ in scs]) for k, scs in out]
            n2 = [(str(k), [s_[0] for s_ in scs]) for k, scs in again]
            ctx.count("second-call:compared")
            if n1 != n2:
                err("names-differ-when-the-result-is-asked-for-again", f"first {n1}\nsecond {n2}")
        except Exception as e:  # noqa: BLE001
            err(f"second-call-raised-{type(e).__name__}", str(e)[:300])
    names_of = {}
    for key, scs in out:
        names = [s[0] for s in scs]
        names_of[key] = names
        dup = sorted({n for n in names if names.count(n) > 1})
        if dup:
            err("duplicate-scaffold-names-in-assembly", f"assembly {key}: {dup}")
    curated = [(k, scs) for k, scs in out if k not in NONCURATED]
    first_hap_key = None
    if design.get("haps"):
        # the first painted Pretext scaffold decides the first haplotype
        om0 = layout_ref.OutMap(out)
        first_main = next((pc for pc in pieces if pc.get("hap") == 0 and pc["kind"] == "main"), None)
        if first_main is not None:
            for pc, dest in c09.core_destinations({**case, "pieces": [first_main]}, om0):
                first_hap_key = next(iter(dest))[0]
    # ---- numbering, sizes, order per curated assembly ------------------------------------------
    for key, scs in curated:
        cls = [classify(s[0], prefix, nametags) for s in scs]
        is_first = (not design.get("haps")) or key == first_hap_key
        sizes = defaultdict(int)
        for s, c in zip(scs, cls):
            if c[0] == 1:
                sizes[c[1]] += seq_len(s[1])
        if sizes:
            ns = sorted(sizes)
            ctx.count("autosomes:numbered", len(ns))
            if len(ns) > 9:
                ctx.count("cases:more-than-9-autosomes")
            if is_first:
                if ns != list(range(1, len(ns) + 1)):
                    err("autosome-numbers-have-holes", f"assembly {key}: numbers {ns}")
                ls = [sizes[n] for n in ns]
                if any(a < b for a, b in zip(ls, ls[1:])):
                    err("autosomes-not-ranked-by-size", f"assembly {key}: sequence lengths by number {list(zip(ns, ls))}")
                if len(set(ls)) < len(ls):
                    ctx.count("cases:equal-size-autosomes")
        # order
        prev = None
        for idx, (s, c) in enumerate(zip(scs, cls)):
            if prev is not None:
                pc_ = prev[1]
                if c[0] < pc_[0]:
                    err("write-order-rank", f"assembly {key}: {prev[0]} (class {pc_[0]}) before {s[0]} (class {c[0]})")
                elif c[0] == 1 and pc_[0] == 1 and (c[1], c[2], c[4]) < (pc_[1], pc_[2], pc_[4]):
                    err("write-order-autosomes", f"assembly {key}: {prev[0]} before {s[0]}")
                elif c[0] == pc_[0] and c[0] in (2, 3):
                    sk_a, sk_b = re.sub(r"\d+", "#", prev[0]), re.sub(r"\d+", "#", s[0])
                    if sk_a == sk_b:
                        na = [int(x) for x in re.findall(r"\d+", prev[0])]
                        nb = [int(x) for x in re.findall(r"\d+", s[0])]
                        if nb < na:
                            err("write-order-natural", f"assembly {key}: {prev[0]} before {s[0]}")
            m = re.fullmatch(r"(.+)_unloc_(\d+)", s[0])
            if m and c[0] in (1, 2):
                k = int(m.group(2))
                want = m.group(1) if k == 1 else f"{m.group(1)}_unloc_{k - 1}"
                have = scs[idx - 1][0] if idx else None
                mh = re.fullmatch(re.escape(m.group(1)) + r"_unloc_(\d+)", have or "")
                follows_own = have == m.group(1) or (mh is not None and int(mh.group(1)) < k)
                # (holes in the unloc numbers are judged separately, only when every unloc piece holds contig bases)
                if not follows_own:
                    if m.group(1) not in names_of[key]:
                        err("unloc-without-chromosome" if vanish else "unloc-without-chromosome:default-class",
                            f"assembly {key}: {s[0]} exists but no scaffold {m.group(1)}")
                    else:
                        err("unloc-not-directly-after-its-chromosome", f"assembly {key}: {s[0]} follows {have}, expected {want}")
            prev = (s[0], c)
    # ---- designed names -------------------------------------------------------------------------
    om = layout_ref.OutMap(out)
    by_chrom = defaultdict(lambda: defaultdict(set))
    has_bases = defaultdict(lambda: defaultdict(list))
    inp_by_name = {s[0]: s for s in case["input"]}
    dests = {id(pc): dest for pc, dest in c09.core_destinations(case, om)}
    for pc in pieces:
        ch = pc.get("chrom")
        hb = id(pc) in dests
        if ch is not None:
            has_bases[ch][pc["kind"]].append(hb)
        if hb and ch is not None and pc["expect"] not in NONCURATED:
            for key, sname in dests[id(pc)]:
                by_chrom[ch][pc["kind"]].add((key, sname))
    for ch, kinds in by_chrom.items():
        mains = kinds.get("main", set())
        tag = next((pc["nametag"] for pc in pieces if pc.get("chrom") == ch), None)
        if len(mains) > 1:
            err("localised-pieces-of-one-chromosome-in-several-scaffolds", f"design chromosome {ch}: {sorted(map(str, mains))}")
            continue
        if mains:
            key, cname = next(iter(mains))
            if tag is not None:
                ctx.count("named-chromosomes")
                if cname != prefix + tag:
                    err("name-tagged-chromosome-name", f"design chromosome {ch} tagged {tag}: localised cores are in {cname}, expected {prefix + tag}")
            else:
                c = classify(cname, prefix, nametags)
                if c[0] != 1 or c[4] != 0:
                    err("painted-chromosome-name", f"design chromosome {ch}: localised cores are in {cname}, expected {prefix}<n>")
            unl = kinds.get("unloc", set())
            for ukey, uname in unl:
                ctx.count("unloc-pieces-placed")
                if ukey != key or not re.fullmatch(re.escape(cname) + r"_unloc_\d+", uname):
                    err("unloc-not-under-its-own-chromosome", f"design chromosome {ch} ({cname}): unloc piece core is in {ukey}/{uname}")
            if unl and all(has_bases[ch]["unloc"]):
                ks = sorted(int(n.rsplit("_", 1)[1]) for k_, n in {(k_, n) for k_, n in unl} if re.fullmatch(re.escape(cname) + r"_unloc_\d+", n))
                allk = sorted(int(n.rsplit("_", 1)[1]) for n in names_of.get(key, []) if re.fullmatch(re.escape(cname) + r"_unloc_\d+", n))
                if allk != list(range(1, len(allk) + 1)):
                    err("unloc-numbers-have-holes", f"{cname}: unloc numbers {allk}")
    # homologues share the number
    if design.get("haps"):
        groups = defaultdict(set)
        for pc in pieces:
            if pc.get("group") is not None and pc["kind"] == "main" and id(pc) in dests:
                for key, sname in dests[id(pc)]:
                    c = classify(sname, prefix, nametags)
                    if c[0] == 1:
                        groups[pc["group"]].add(c[1])
        for g, nums in groups.items():
            ctx.count("homologue-groups")
            if len(nums) > 1:
                err("homologues-do-not-share-number", f"design group {g}: numbers {sorted(nums)}")
    # ---- haplotigs -------------------------------------------------------------------------------
    for key, scs in out:
        if key != "Haplotig":
            continue
        hn = sorted(int(s[0][2:]) for s in scs if re.fullmatch(r"H_\d+", s[0]))
        other = [s[0] for s in scs if not re.fullmatch(r"H_\d+", s[0])]
        if other:
            err("haplotig-name", f"{other}")
        ctx.count("haplotig-scaffolds", len(hn))
        # haplotigs are renamed by size after all discards and cuts: an emptied one sorts last and takes
        # the last number, so H_1..H_n has no holes whatever was dropped on the way
        if hn != list(range(1, len(hn) + 1)):
            err("haplotig-numbers-have-holes", f"{hn}")
        by = {int(s[0][2:]): (tot_len(s[1]), seq_len(s[1])) for s in scs if re.fullmatch(r"H_\d+", s[0])}
        l1 = [by[k][0] for k in sorted(by)]
        l2 = [by[k][1] for k in sorted(by)]
        if any(a < b for a, b in zip(l1, l1[1:])) and any(a < b for a, b in zip(l2, l2[1:])):
            err("haplotigs-not-ranked-by-length", f"total {l1} sequence {l2}")
    # (unlocs of one chromosome are NOT checked for size order: the statement ranks autosomes and haplotigs by
    #  length, and the unchanged tree numbers unlocs before cuts and discards change their lengths - DESIGN 5.21)
    # ---- CSV -------------------------------------------------------------------------------------
    ba = outcome["ba"]
    for key, asm in outcome["out_obj"].items():
        if key in NONCURATED:
            continue
        scs = next(s for k, s in out if k == key)
        exp = []
        for s in scs:
            c = classify(s[0], prefix, nametags)
            if c[0] in (1, 2):
                base = re.sub(r"_unloc_\d+$", "", s[0])
                exp.append((s[0], base[len(prefix):] if base.startswith(prefix) else base, "no" if c[4] else "yes"))
        txt = ba.assembly_stats.chromosome_name_csv(asm)
        got = [tuple(l.split(",")) for l in txt.strip().split("\n")] if txt else []
        ctx.count("csv:lines", len(got))
        if [g[0] for g in got] != [e[0] for e in exp]:
            err("chromosome-list-csv-lines", f"assembly {key}: csv names {[g[0] for g in got]} expected {[e[0] for e in exp]}")
        else:
            for g, e in zip(got, exp):
                if g[2] != e[2]:
                    orphan = e[2] == "no" and re.sub(r"_unloc_\d+$", "", e[0]) not in names_of[key]
                    err(("unloc-without-chromosome" if vanish else "unloc-without-chromosome:default-class") if orphan else "chromosome-list-csv-localised-flag",
                        f"assembly {key}: csv line {g}, expected localised={e[2]}")
                elif g[1] != e[1] and e[2] == "yes":
                    err("chromosome-list-csv-chromosome-name", f"assembly {key}: csv line {g}, expected chromosome {e[1]}")
    # a chromosome list names scaffolds that are written: none of them is a scaffold without rows
    for key, asm in outcome["out_obj"].items():
        txt = ba.assembly_stats.chromosome_name_csv(asm) if asm.curated else None
        if txt:
            hollow = {s_.name for s_ in asm.scaffolds if not s_.rows}
            ghosts = [ln.split(",")[0] for ln in txt.splitlines() if ln.split(",")[0] in hollow]
            if ghosts:
                err("chromosome-list-names-scaffold-without-rows", f"assembly {key}: {ghosts}")
    rep = ba.assembly_stats.chromosomes_report_csv(outcome["out_obj"])
    if rep:
        rows = list(csv.reader(io.StringIO(rep)))[1:]
        exp = []
        for key, scs in out:
            for s in scs:
                c = classify(s[0], prefix, nametags)
                if c[0] in (1, 2) and key not in NONCURATED:
                    exp.append((s[0], "false" if c[4] else "true"))
        got = [(r[1], r[3]) for r in rows]
        if [g[0] for g in got] != [e[0] for e in exp]:
            err("chr-report-csv-lines", f"{[g[0] for g in got]} expected {[e[0] for e in exp]}")
        else:
            for g, e in zip(got, exp):
                if g != e:
                    orphan = e[1] == "false" and not any(re.sub(r"_unloc_\d+$", "", e[0]) in v for v in names_of.values())
                    err(("unloc-without-chromosome" if vanish else "unloc-without-chromosome:default-class") if orphan else "chr-report-csv-localised-flag", f"line {g} expected {e}")
    seen = set()
    for sig, msg in errs:
        if sig in seen:
            continue
        seen.add(sig)
        ctx.violation(sig, f"{msg}\n{desc}\noutput={[(k, [s[0] for s in scs]) for k, scs in out]}", stripped)
    if not errs:
        ctx.count(f"naming-ok:{case['gen']}")
        if len(ctx.samples) < 2 and len(out) >= 2 and any("_unloc_" in n for v in names_of.values() for n in v):
            ctx.sample({"prefix": prefix, "pretext": case["pretext"][:5], "names": {str(k): v[:10] for k, v in names_of.items()}})


# ---- CLI leg: one chromosome list file beside every curated assembly file that has chromosomes ------------
CSV_SNAP = []


def check_cli(cr, ctx):
    from tola.assembly.scripts import pretext_to_asm as p2a
    from vf import cli_runs
    from vf.mon import contracts

    def on_call(args, kwargs):
        asms = args[2] if len(args) > 2 else kwargs["out_assemblies"]
        CSV_SNAP.append([(a.name, bool(a.curated), [(s.rank, s.name) for s in a.scaffolds]) for a in asms.values()])

    contracts.attach(p2a, "write_chr_csv_files", on_call=on_call, label="C10.write_chr_csv_files")
    ctx.case()
    if cr.get("rerun_over_longer_files"):
        # the output directory holds the (longer) files of an earlier run under the same names; overwriting is the default
        first = cli_runs.run_pretext_to_asm(cr, out_name="out.agp")
        if first["exit_code"] == 0 and cli_runs.inflate_outputs(cr):
            ctx.count("cli:rerun-over-longer-files")
    CSV_SNAP.clear()
    res = cli_runs.run_pretext_to_asm(cr, out_name="out.agp")
    if res["exit_code"] != 0 or len(CSV_SNAP) != 1:
        ctx.count("cli:error-exit")
        return
    case = cli_runs.case_of(cr, {"rerun_over_longer_files": bool(cr.get("rerun_over_longer_files"))})
    ctx.nontrivial(case["files"])
    files = cli_runs.output_files(cr)
    seen_uncurated = False
    for name, curated, scs in CSV_SNAP[0]:
        chroms = [n for r, n in scs if r in (1, 2)]
        if not curated:
            if chroms:
                # set-aside assemblies (haplotigs, contaminants, false duplicates) hold unplaced pieces only
                ctx.violation("assembly-with-chromosomes-not-marked-curated", f"assembly {name}: chromosomes {chroms[:5]} but curated is false; files {sorted(cli_runs.output_files(cr))}", case)
                return
            seen_uncurated = True
            continue
        f = f"{name}.chromosome.list.csv"
        if not chroms:
            continue
        ctx.count("cli:chromosome-lists-expected")
        if seen_uncurated:
            ctx.count("cli:chromosome-list-expected-after-a-set-aside-assembly")
        if f not in files:
            ctx.violation("chromosome-list-file-not-written", f"assembly {name} has chromosomes {chroms[:5]} but {f} is missing; files: {sorted(files)}", case)
            return
        got = [ln.split(",")[0] for ln in files[f].decode().splitlines() if ln.strip()]
        if got != chroms:
            ctx.violation("chromosome-list-file-lines", f"{f}: {got} expected {chroms}", case)
            return
        # ... and every scaffold the list names is an object of the assembly file beside it
        agp = next((n for n in files if n.endswith(".agp") and n.startswith(name + ".")), None)
        if agp is not None:
            objs = {ln.split("\t", 1)[0] for ln in files[agp].decode().splitlines() if ln and not ln.startswith("#")}
            ghosts = [n for n in got if n not in objs]
            if ghosts:
                ctx.violation("chromosome-list-names-scaffold-absent-from-assembly-file", f"{f}: {ghosts} not in {agp}", case)
                return
    ctx.count("cli:ok")


def run_cli(shard, ctx):
    import os
    from pathlib import Path

    from vf import cli_runs
    from vf.core import rng_for

    base = Path(os.environ.get("VERIF_SHARD_SCRATCH", "."))
    for i in range(shard["n"]):
        rng = rng_for(shard["seed"], "c10cli", shard["index"], i)
        k = i % 3
        if k == 0:
            cr = cli_runs.text_case(rng, base / f"c{i}", fmt="agp", tagged=True)
        elif k == 1:
            cr = cli_runs.text_case(rng, base / f"c{i}", fmt="agp", tagged=True, two_hap=True, primary=False)
        else:
            cr = cli_runs.text_case(rng, base / f"c{i}", fmt="agp", tagged=True, two_hap=True, unprefixed=True, primary=True)
        cr["rerun_over_longer_files"] = i % 4 == 1
        try:
            check_cli(cr, ctx)
        finally:
            cli_runs.cleanup(cr)


def run(shard, ctx):
    if shard["kind"] == "cli":
        return run_cli(shard, ctx)
    workloads.run_remap_batch(shard, ctx, kinds=tuple(shard["kinds"]), oracle=oracle)


def replay(case, ctx):
    if case.get("kind") == "cli":
        import os
        from pathlib import Path

        from vf import cli_runs

        cr_ = cli_runs.restore_case(case, Path(os.environ.get("VERIF_SHARD_SCRATCH", ".")) / "replay")
        cr_["rerun_over_longer_files"] = case.get("rerun_over_longer_files")
        return check_cli(cr_, ctx)
    oracle(case, workloads.run_case(case), ctx)


def plan(tier, seed):
    n, per = (14, 1800) if tier == "quick" else (14, 25000)
    sh = [{"kind": "mem", "kinds": [["tag"], ["tag", "tag2"]][k % 2], "n": per} for k in range(n)]
    sh += [{"kind": "mem", "kinds": ["vanish"], "n": per} for _ in range(2)]
    sh += [{"kind": "cli", "n": 60 if tier == "quick" else 600} for _ in range(4)]
    return sh


def gates(c, tier):
    need = {
        "naming-ok:tag": 1500,
        "second-call:compared": 1000,
        "cli:chromosome-lists-expected": 100,
        "cli:rerun-over-longer-files": 30,
        "cli:chromosome-list-expected-after-a-set-aside-assembly": 10,
        "naming-ok:tag2": 400,
        "autosomes:numbered": 3000,
        "cases:more-than-9-autosomes": 5,
        "named-chromosomes": 200,
        "unloc-pieces-placed": 200,
        "haplotig-scaffolds": 200,
        "homologue-groups": 300,
        "csv:lines": 3000,
        "label:tag:vanishing-candidate": 20,
        "label:tag:haplotig-slivers": 200,
    }
    return [f"{k}>={v} (got {c.get(k, 0)})" for k, v in need.items() if c.get(k, 0) < v]
