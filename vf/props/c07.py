"""C07  Every join carries a gap and retained neighbours keep their input gap.

Oracle: vf.ref.gaps_ref.check_gaps (adjacency relation of contig ends with the
gap rows between) on every completed remap.
"""

from vf import workloads
from vf.ref import gaps_ref

ID = "C07"
LEVEL = "exploration"
RULE = (
    "case = completed remap of (input, Pretext map, t). Sentence 1 (gapless junction only between input neighbours "
    "without gap; no terminal gap; no empty scaffold) is checked on PretextView-model, designed-tag AND hostile maps; "
    "sentence 2 (every gap row = the input gap of those neighbours or the 200 bp scaffold join gap; non-neighbours "
    "always get the join gap) on PretextView-model and designed-tag maps only, as stated. Inputs include gapless "
    "junctions, consecutive gaps, all gap types, trailing contigs inside the final partial texel, scaffolds absent "
    "from the map. Non-trivial = output with >= 1 junction; distinct = distinct (input, pretext, t)."
)
ASSUMPTIONS = [
    "a contig end is (name, coordinate, lo|hi); two halves of a cut contig that meet again in their original relative orientation count as adjacent in the input",
]


def oracle(case, outcome, ctx):
    ctx.case()
    if not outcome["ok"]:
        return
    pv_model = case["gen"] in ("pv", "tag", "tag2")
    errs, cnt = gaps_ref.check_gaps(case["input"], outcome["out"], workloads.JOIN_GAP, pv_model)
    for k, v in cnt.items():
        ctx.count(f"junctions:{k}", v)
    if sum(cnt.values()):
        ctx.nontrivial([case["input"], case["pretext"], case["t"]])
    leftovers = sum(1 for _, scs in outcome["out"] for s in scs if s[0] in {i[0] for i in case["input"]})
    ctx.count("checked:" + ("both-sentences" if pv_model else "sentence-1-only"))
    stripped = {k: v for k, v in case.items() if k != "labels"}
    for sig, msg in errs[:3]:
        ctx.violation(f"{sig}", f"{msg}\ngen={case['gen']} t={case['t']}\ninput={case['input']}\npretext={case['pretext']}\noutput={outcome['out']}", stripped)
    if not errs:
        ctx.count("gaps-ok")
        if len(ctx.samples) < 2 and cnt["join-gap"] and cnt["input-gap-kept"] and len(case["input"]) <= 3:
            ctx.sample({"t": case["t"], "input": case["input"], "pretext": case["pretext"], "output": outcome["out"], "junction_classes": cnt})


def run(shard, ctx):
    workloads.run_remap_batch(shard, ctx, kinds=tuple(shard["kinds"]), oracle=oracle, opts={"terminal_gaps": True})


def replay(case, ctx):
    oracle(case, workloads.run_case(case), ctx)


def plan(tier, seed):
    n, per = (16, 2500) if tier == "quick" else (16, 45000)
    sh = []
    for k in range(n):
        kinds = [["pv"], ["pv", "tag"], ["hostile", "pv"], ["tag", "tag2", "pv"]][k % 4]
        s = {"kind": "mem", "kinds": kinds, "n": per}
        if k % 4 == 0:
            s["opts"] = {"paint_prob": 0.2}  # many unpainted scaffolds: trailing contigs in the final partial texel
        sh.append(s)
    return sh


def gates(c, tier):
    need = {
        "gaps-ok": 3000,
        "junctions:gapless": 300,
        "junctions:input-gap-kept": 3000,
        "junctions:join-gap": 1000,
        "checked:sentence-1-only": 200,
        "label:in:gapless-junction": 300,
        "label:in:consecutive-gaps": 50,
        "label:pv:subtexel-absent": 50,
        "label:pv:unpainted": 1000,
        "label:in:trailing-gap": 100,
        "label:in:leading-gap": 100,
        "label:in:via-tpf-text": 500,
        "label:in:via-agp-text": 500,
    }
    return [f"{k}>={v} (got {c.get(k, 0)})" for k, v in need.items() if c.get(k, 0) < v]
