"""C07  Every join carries a gap and retained neighbours keep their input gap.

Oracle: vf.ref.gaps_ref.check_gaps (adjacency relation of contig ends with the
gap rows between) on every completed remap.
"""

from vf import workloads
from vf.ref import gaps_ref

ID = "C07"
LEVEL = "exploration"
RULE = (
    "case = completed remap of (input, Pretext map, t). Sentence 1 (gapless junction only between input neighbours "
    "without gap; no terminal gap; no empty scaffold) is checked on PretextView-model, designed-tag AND hostile maps; "
    "sentence 2 (every gap row = the input gap of those neighbours or the 200 bp scaffold join gap; non-neighbours "
    "always get the join gap) on PretextView-model and designed-tag maps only, as stated. Inputs include gapless "
    "junctions, consecutive gaps, all gap types, trailing contigs inside the final partial texel, scaffolds absent "
    "from the map. Non-trivial = output with >= 1 junction; distinct = distinct (input, pretext, t)."
)
ASSUMPTIONS = [
    "a contig end is (name, coordinate, lo|hi); two halves of a cut contig that meet again in their original relative orientation count as adjacent in the input",
]


def oracle(case, outcome, ctx):
    ctx.case()
    if not outcome["ok"]:
        return
    pv_model = case["gen"] in ("pv", "tag", "tag2")
    errs, cnt = gaps_ref.check_gaps(case["input"], outcome["out"], workloads.JOIN_GAP, pv_model)
    for k, v in cnt.items():
        ctx.count(f"junctions:{k}", v)
    if sum(cnt.values()):
        ctx.nontrivial([case["input"], case["pretext"], case["t"]])
    leftovers = sum(1 for _, scs in outcome["out"] for s in scs if s[0] in {i[0] for i in case["input"]})
    ctx.count("checked:" + ("both-sentences" if pv_model else "sentence-1-only"))
    stripped = {k: v for k, v in case.items() if k != "labels"}
    for sig, msg in errs[:3]:
        ctx.violation(f"{sig}", f"{msg}\ngen={case['gen']} t={case['t']}\ninput={case['input']}\npretext={case['pretext']}\noutput={outcome['out']}", stripped)
    if not errs:
        ctx.count("gaps-ok")
        if len(ctx.samples) < 2 and cnt["join-gap"] and cnt["input-gap-kept"] and len(case["input"]) <= 3:
            ctx.sample({"t": case["t"], "input": case["input"], "pretext": case["pretext"], "output": outcome["out"], "junction_classes": cnt})


MERGED = []


def split_merged_blocks(blocks, merged):
    """blocks: scaffolds as read back from the file (runs of lines with one name); merged: what the tool
    concatenated, per source assembly [(scaffold name, number of rows)].  Where one block is really several
    same-named scaffolds that came from DIFFERENT source assemblies, split it again and report it."""
    flat = [(ai, n, k) for ai, a in enumerate(merged) for n, k in a]
    out, ran, i = [], [], 0
    for name, rows in blocks:
        parts, used = [], 0
        while i < len(flat) and flat[i][1] == name and used + flat[i][2] <= len(rows):
            parts.append(flat[i])
            used += flat[i][2]
            i += 1
        if len(parts) > 1 and used == len(rows) and len({p[0] for p in parts}) == len(parts):
            ran.append(f"{name} x{len(parts)}")
            at = 0
            for _, _, k in parts:
                out.append([name, rows[at : at + k]])
                at += k
        else:
            out.append([name, rows])
    return out, ran


def check_cli(cr, ctx, fmt, multihap=False):
    """The files the CLI writes, read back block by block (a scaffold in AGP / TPF text is a run of lines
    with one object name), under the same oracle."""
    from vf import cli_runs
    from vf.ref import agp_ref, tpf_ref

    from tola.assembly.scripts import pretext_to_asm as p2a
    from vf.mon import contracts

    def on_merge(args, kwargs):
        MERGED.append([[(s.name, len(s.rows)) for s in a.scaffolds] for a in (args[0] if args else kwargs["asm_list"])])

    contracts.attach(p2a, "merge_assemblies", on_call=on_merge, label="C07.merge_assemblies")
    ctx.case()
    MERGED.clear()
    res = cli_runs.run_pretext_to_asm(cr, out_name=f"out.{fmt}")
    if res["exit_code"] != 0:
        ctx.count("cli:error-exit")
        return
    out = []
    case = cli_runs.case_of(cr, {"out_fmt": fmt, "multihap": multihap})
    for name, data in cli_runs.output_files(cr).items():
        if name.endswith("." + fmt):
            blocks = (agp_ref if fmt == "agp" else tpf_ref).parse(data.decode())[0]["scaffolds"]
            if "all_haplotigs" in name and len(MERGED) == 1:
                blocks, ran_together = split_merged_blocks(blocks, MERGED[0])
                if ran_together:
                    # D11: homologous chromosomes of two un-curated haplotypes get the same name and are written
                    # one after the other into the one file, where they read as a single scaffold
                    ctx.violation(
                        "all_haplotigs-same-named-scaffolds-of-different-haplotypes-run-together" + ("" if multihap else ":unexpected-class"),
                        f"{name}: {ran_together} - a reader of the file sees one scaffold per name\nmerged assemblies: {MERGED[0]}", case)
            out.append([name, blocks])
    errs, cnt = gaps_ref.check_gaps(cr["input"], out, workloads.JOIN_GAP, True)
    for k, v in cnt.items():
        ctx.count(f"cli-junctions:{k}", v)
    ctx.nontrivial(case["files"])
    for lab in cr["labels"]:
        if lab.startswith("tag:") and lab.endswith("-haplotypes"):
            ctx.count(f"cli:{lab}")
    if any("all_haplotigs" in n for n, _ in out):
        ctx.count("cli:all_haplotigs-file-written")
    for sig, msg in errs[:3]:
        ctx.violation(f"{sig}:cli-files", f"{msg}\nfiles={[(n, [s[0] for s in scs]) for n, scs in out]}", case)
    if not errs:
        ctx.count("cli:gaps-ok")


def run_cli(shard, ctx):
    import os
    from pathlib import Path

    from vf import cli_runs
    from vf.core import rng_for

    base = Path(os.environ.get("VERIF_SHARD_SCRATCH", "."))
    for i in range(shard["n"]):
        rng = rng_for(shard["seed"], "c07cli", shard["index"], i)
        fmt = rng.choice(["agp", "tpf"])
        k = 0 if shard["kind"] == "cli-multihap" else 1 + i % 3
        if k == 0:
            cr = cli_runs.text_case(rng, base / f"c{i}", fmt=fmt, nhap=rng.choice([3, 3, 4]))
        elif k == 1:
            cr = cli_runs.text_case(rng, base / f"c{i}", fmt=fmt, tagged=True, two_hap=True, unprefixed=True, primary=True)
        elif k == 2:
            cr = cli_runs.text_case(rng, base / f"c{i}", fmt=fmt, tagged=True, two_hap=True)
        else:
            cr = cli_runs.text_case(rng, base / f"c{i}", fmt=fmt, tagged=True)
        try:
            check_cli(cr, ctx, fmt, multihap=(k == 0))
        finally:
            cli_runs.cleanup(cr)


def run(shard, ctx):
    if shard["kind"] in ("cli", "cli-multihap"):
        return run_cli(shard, ctx)
    workloads.run_remap_batch(shard, ctx, kinds=tuple(shard["kinds"]), oracle=oracle, opts={"terminal_gaps": True})


def replay(case, ctx):
    if case.get("kind") == "cli":
        import os
        from pathlib import Path

        from vf import cli_runs

        return check_cli(cli_runs.restore_case(case, Path(os.environ.get("VERIF_SHARD_SCRATCH", ".")) / "replay"), ctx, case.get("out_fmt", "agp"), multihap=case.get("multihap", False))
    oracle(case, workloads.run_case(case), ctx)


def plan(tier, seed):
    n, per = (16, 2500) if tier == "quick" else (16, 45000)
    sh = []
    for k in range(n):
        kinds = [["pv"], ["pv", "tag"], ["hostile", "pv"], ["tag", "tag2", "pv"]][k % 4]
        s = {"kind": "mem", "kinds": kinds, "n": per}
        if k % 4 == 0:
            s["opts"] = {"paint_prob": 0.2}  # many unpainted scaffolds: trailing contigs in the final partial texel
        sh.append(s)
    sh += [{"kind": "cli", "n": 60 if tier == "quick" else 800} for _ in range(3)]
    sh += [{"kind": "cli-multihap", "n": 60 if tier == "quick" else 800} for _ in range(2)]
    return sh


def gates(c, tier):
    need = {
        "gaps-ok": 3000,
        "junctions:gapless": 300,
        "junctions:input-gap-kept": 3000,
        "junctions:join-gap": 1000,
        "checked:sentence-1-only": 200,
        "label:in:gapless-junction": 300,
        "label:in:consecutive-gaps": 50,
        "label:pv:subtexel-absent": 50,
        "label:pv:unpainted": 1000,
        "label:in:trailing-gap": 100,
        "label:in:leading-gap": 100,
        "cli:gaps-ok": 150,
        "cli:tag:3-haplotypes": 40,
        "cli:all_haplotigs-file-written": 60,
        "label:in:agp-v1.1-gaps": 100,
        "label:in:agp-component-types": 100,
        "label:in:via-tpf-text": 500,
        "label:in:via-agp-text": 500,
    }
    return [f"{k}>={v} (got {c.get(k, 0)})" for k, v in need.items() if c.get(k, 0) < v]
