"""C02  Curated layout follows the Pretext edits to within three texel widths.

Oracle: vf.ref.layout_ref (base-level placement map): affine placement of
every piece core, orientation, internal gaps, Pretext order, exact cut
coordinate; any exception on a PretextView-model map is a violation.
"""

from vf import workloads
from vf.ref import layout_ref

ID = "C02"
LEVEL = "exploration"
RULE = (
    "case = (input assembly, PretextView-model edit script, texel size): cut sets on the texel grid with pieces >= 2 "
    "texels, pieces shuffled / reoriented / regrouped 1-4 per Pretext scaffold, painted or not, floor or ceil texel "
    "count, sub-texel scaffolds present or absent, t in {1,1.5,2,3.7,10,33.3,100,1000.25,2326.1,random}, forward and "
    "reverse input contigs, three naming modes. Core bases are checked at every contig-interval end and midpoint "
    "inside the core (every base for small cases in the dense shards). Non-trivial = completed run whose map has a "
    "cut, a reversed piece or a multi-piece Pretext scaffold; distinct = distinct (input, pretext, t)."
)
ASSUMPTIONS = [
    "maps are those of the PretextView model named in the property (no perturbation)",
    "margin m = 3*(1+floor(t)); core of a piece = positions more than m from both piece ends (piece end clipped to the scaffold length)",
]


def oracle(case, outcome, ctx, dense=False):
    ctx.case()
    stripped = {k: v for k, v in case.items() if k != "labels"}
    if not outcome["ok"]:
        e = outcome["exc"]
        cls = "reverse-strand-contig-cut" if "in:both-strands" in case["labels"] and e["fn"] == "qc_sub_fragments" else "other"
        ctx.violation(
            f"remap-raised-{e['type']}@{e['fn']}",
            f"PretextView-model map did not complete: {e['type']} in {e['fn']}: {e['msg'][:400]}\nt={case['t']}\ninput={case['input']}\npretext={case['pretext']}",
            stripped,
        )
        ctx.count(f"raised-class:{cls}")
        return
    labels = set(case["labels"])
    if labels & {"pv:cut", "pv:reversed-piece", "pv:multi-piece-scaffold"}:
        ctx.nontrivial([case["input"], case["pretext"], case["t"]])
    om = layout_ref.OutMap(outcome["out"])
    errs, placements = layout_ref.check_layout(case["input"], case["pieces"], om, case["t"], dense=dense)
    cut_errs, deep = layout_ref.check_cut_points(case["input"], case["pieces"], outcome["out"], case["t"])
    ctx.count("cores:placed", sum(1 for p in placements if p))
    ctx.count("cores:empty", sum(1 for p in placements if p is None))
    ctx.count("cuts:deep", deep)
    if deep:
        by = {s[0]: s[1] for s in case["input"]}
        ctx.count("cases:with-deep-cut")
    if case["t"] == 1.0:
        ctx.count("cases:t=1")
    for sig, msg in (errs + cut_errs)[:3]:
        ctx.violation(sig, f"{msg}\nt={case['t']}\ninput={case['input']}\npretext={case['pretext']}\noutput={outcome['out']}", stripped)
    if not errs and not cut_errs:
        ctx.count("layout-ok")
        if len(ctx.samples) < 2 and deep and "pv:reversed-piece" in labels:
            ctx.sample({"t": case["t"], "input": case["input"][:3], "pretext": case["pretext"][:4], "output": outcome["out"][:1]})


def run(shard, ctx):
    dense = shard.get("dense", False)
    workloads.run_remap_batch(
        shard, ctx, kinds=("pv",), oracle=lambda c, o, x: oracle(c, o, x, dense),
        opts={"max_texels": 12, "small_t": True, "no_join_gap": 0.1} if dense else {"no_join_gap": 0.1, "gap_only": 0.08},
    )


def replay(case, ctx):
    oracle(case, workloads.run_case(case), ctx, dense=True)


def plan(tier, seed):
    n, per = (16, 3000) if tier == "quick" else (16, 50000)
    sh = []
    for k in range(n):
        s = {"kind": "pv", "n": per}
        if k % 4 == 3:
            s["dense"] = True
        if k % 4 == 1:
            s["opts"] = {"strands": [1, -1], "cut_prob": 0.8}
        if k % 4 == 2:
            s["opts"] = {"strands": [1], "cut_prob": 0.8}
        sh.append(s)
    return sh


def gates(c, tier):
    need = {
        "layout-ok": 3000,
        "label:cfg:no-join-gap-configured": 1000,
        "cores:placed": 5000,
        "cuts:deep": 1000,
        "cases:t=1": 100,
        "label:pv:reversed-piece": 1000,
        "label:pv:subtexel-absent": 50,
        "label:pv:subtexel-present": 50,
        "label:pv:ceil": 1000,
        "label:pv:floor": 1000,
        "label:in:both-strands": 1000,
        "label:in:fwd-only": 500,
        "label:pv:painted": 1000,
        "label:pv:unpainted": 1000,
        "label:in:gap-only-scaffold": 100,
    }
    return [f"{k}>={v} (got {c.get(k, 0)})" for k, v in need.items() if c.get(k, 0) < v]
