"""C13  Streaming is buffer-size independent and memory-bounded.

Part 1 (differential observer): index and streamed bytes identical for every
buffer size.  Part 2 (restated for a finite run, DESIGN 3-C13): (a) I/O-size
monitor: every read() on the FASTA handle and every chunk yielded by the chunk
iterators is <= buffer; bytes assembled per sequence_bytes call <= buffer;
(b) allocator monitor: tracemalloc peak while indexing / streaming sequences,
fragments and gaps 300-400 buffers long stays below 6*buffer + 64 KiB.
"""

import base64
import io
import os
import tracemalloc
from pathlib import Path

from vf.core import build_scaffolds, rng_for
from vf.gen import fasta as gfa
from vf.mon import contracts  # noqa: F401

ID = "C13"
LEVEL = "exploration"
RULE = (
    "case = (FASTA file, assembly over it) evaluated under every buffer size of {1,2,3,5,7,w-1,w,w+1,L-1,L,L+1,250000} "
    "(index quintuples + derived rows must coincide; streamed bytes must coincide) with the I/O-size monitor attached; "
    "plus allocator cases: one-record files of 300-400 buffers (buffer 4096 / 50000) indexed and streamed as forward "
    "fragment, reverse fragment and gap to a counting sink under tracemalloc. Non-trivial = file with a record longer "
    "than the smallest buffer; distinct by (file, assembly)."
)
ASSUMPTIONS = [
    "'held in memory' is measured as (a) sizes requested from the file / yielded per chunk and (b) tracemalloc peak minus baseline <= 6*buffer+64KiB; shapes whose legitimate state grows (many short runs) are excluded from (b)",
]

IO = {"max_read": 0, "max_chunk": 0, "reads": 0, "chunks": 0, "max_call_total": 0}


class ReadProxy:
    def __init__(self, fh, ctx, limit, case_ref):
        self.fh, self.ctx, self.limit, self.case_ref = fh, ctx, limit, case_ref

    def read(self, n=-1):
        self.ctx.count("io:reads")
        if n is None or n < 0 or n > self.limit():
            self.ctx.violation("read-larger-than-buffer", f"read({n}) with buffer {self.limit()}", self.case_ref.get("case"))
        return self.fh.read(n)

    def __getattr__(self, k):
        return getattr(self.fh, k)


def attach(ctx, case_ref):
    """Wrap the chunk iterators and sequence_bytes of the real FastaIndex."""
    from tola.fasta.index import FastaIndex

    if getattr(FastaIndex, "_vf_c13", False):
        return
    FastaIndex._vf_c13 = True
    for name in ("fwd_chunks", "rev_chunks", "get_gap_iter"):
        orig = getattr(FastaIndex, name)

        def make(orig, name):
            def wrapped(self, *a, **k):
                for chunk in orig(self, *a, **k):
                    n = len(chunk.getvalue())
                    ctx.count(f"io:chunks:{name}")
                    if n > self.buffer_size:
                        ctx.violation(f"chunk-larger-than-buffer-{name}", f"{name} yielded {n} bytes with buffer {self.buffer_size}", case_ref.get("case"))
                    if n == self.buffer_size:
                        ctx.count("io:full-chunks")
                    yield chunk

            return wrapped

        setattr(FastaIndex, name, make(orig, name))
    orig_sb = FastaIndex.sequence_bytes

    def sequence_bytes(self, info, start, end):
        res = orig_sb(self, info, start, end)
        ctx.count("io:sequence_bytes-calls")
        return res

    FastaIndex.sequence_bytes = sequence_bytes


def open_index(p, bs, ctx, case_ref, idx=None):
    from tola.fasta.index import FastaIndex, index_fasta_file

    fi = FastaIndex(p, bs)
    if idx is None:
        idx = index_fasta_file(p, bs)
    fi.index, fi.assembly = idx
    if bs < 2**30:
        fi.__dict__["fasta_fileandle"] = ReadProxy(p.open("rb"), ctx, lambda: fi.buffer_size, case_ref)
    else:
        # huge buffers: the object's own way of opening the file is used (nothing to measure there anyway);
        # wrapped so that the caller can close it the same way
        class _Own:
            def __init__(self, fh):
                self.fh = fh

            def __getattr__(self, k):
                return getattr(self.fh, k)

        fi.__dict__["fasta_fileandle"] = _Own(type(fi).fasta_fileandle.func(fi) if hasattr(type(fi).fasta_fileandle, "func") else type(fi).fasta_fileandle.fget(fi))
    return fi


def idx_plain(idx, asm):
    return (
        [(n, i.length, i.file_offset, i.residues_per_line, i.max_line_length) for n, i in idx.items()],
        [[s.name, [(r.name, r.start, r.end, r.strand) if not hasattr(r, "gap_type") else ("G", r.length, r.gap_type) for r in s.rows]] for s in asm.scaffolds],
    )


def check_differential(ctx, data, scs, buffers, scratch, case_ref, second=None):
    from tola.assembly.assembly import Assembly
    from tola.fasta.index import index_fasta_file
    from tola.fasta.stream import FastaStream

    ctx.case()
    case = {"kind": "diff", "data": base64.b64encode(data).decode(), "scaffolds": scs, "buffers": buffers,
            "second": second or [[7, 60, 61, 1000][len(data) % 4], "nNx-"[len(scs) % 4]]}
    case_ref["case"] = case
    p = Path(scratch) / "d.fa"
    p.write_bytes(data)
    ref_idx = ref_bytes = None
    ref_bs = None
    for bs in buffers:
        try:
            res = index_fasta_file(p, bs)
        except Exception as e:  # noqa: BLE001
            ctx.violation(f"indexing-raised-{type(e).__name__}", f"buffer={bs}: {e}", case)
            return
        ip = idx_plain(*res)
        try:
            fi = open_index(p, bs, ctx, case_ref, res)
        except Exception as e:  # noqa: BLE001
            ctx.violation(f"opening-for-streaming-raised-{type(e).__name__}", f"buffer={bs}: {e}", case)
            return
        out = io.BytesIO()
        try:
            FastaStream(out, fi).write_assembly(Assembly("o", scaffolds=build_scaffolds(scs)))
            # second use of the same index object, with other stream options: still the same for every buffer
            out.write(b"\n--second-stream-from-the-same-index--\n")
            FastaStream(out, fi, line_length=case["second"][0], gap_character=case["second"][1].encode()).write_assembly(Assembly("o2", scaffolds=build_scaffolds(scs)))
            ctx.count("diff:second-stream-from-same-index")
        except Exception as e:  # noqa: BLE001
            ctx.violation(f"stream-raised-{type(e).__name__}", f"buffer={bs}: {e}", case)
            return
        finally:
            fi.fasta_fileandle.fh.close()
        ctx.count("diff:buffer-runs")
        if ref_idx is None:
            ref_idx, ref_bytes, ref_bs = ip, out.getvalue(), bs
            continue
        if ip[0] != ref_idx[0]:
            ctx.violation("index-depends-on-buffer", f"buffer {bs} vs {ref_bs}: {ip[0]} vs {ref_idx[0]}", case)
            return
        if ip[1] != ref_idx[1]:
            ctx.violation("derived-rows-depend-on-buffer", f"buffer {bs} vs {ref_bs}:\n{ip[1]}\n{ref_idx[1]}", case)
            return
        if out.getvalue() != ref_bytes:
            ctx.violation("streamed-bytes-depend-on-buffer", f"buffer {bs} vs {ref_bs}:\n{out.getvalue()[:200]!r}\n{ref_bytes[:200]!r}", case)
            return
    ctx.nontrivial([case["data"], scs])
    ctx.count("diff:cases-ok")
    if len(ctx.samples) < 2:
        ctx.sample({"fasta": data[:160].decode("latin-1"), "scaffolds": scs[:1], "buffers": buffers, "streamed": ref_bytes[:120].decode("latin-1")})


class Sink:
    def __init__(self):
        self.n = 0

    def write(self, b):
        self.n += len(b)
        return len(b)


def check_memory(ctx, bs, mult, scratch, case_ref, shape):
    from tola.assembly.fragment import Fragment
    from tola.assembly.gap import Gap
    from tola.assembly.scaffold import Scaffold
    from tola.fasta.index import index_fasta_file
    from tola.fasta.stream import FastaStream

    ctx.case()
    L = bs * mult + 17
    case = {"kind": "mem", "buffer": bs, "mult": mult, "shape": shape}
    case_ref["case"] = case
    p = Path(scratch) / "big.fa"
    line = (b"ACGTTGCAAC" * 6) if shape != "one-line" else None
    with p.open("wb") as fh:
        if shape == "after-short-record":
            # a 1-bp contig (a one-residue line) ahead of the chromosome: nothing learnt from one record's
            # line width may govern how much of the next is held
            fh.write(b">tiny\nA\n>two\nAC\nGT\n")
        fh.write(b">big\n")
        if line:
            full, rem = divmod(L, 60)
            blk = (line + b"\n") * 1000
            nblk = (b"N" * 60 + b"\n") * 1000
            nth = 0
            for _ in range(full // 1000):
                # shape n-run: the middle third of the sequence is one long run of N (many buffers long)
                third = (full // 1000) // 3
                fh.write(nblk if shape == "n-run" and third <= nth < 2 * third else blk)
                nth += 1
            fh.write((line + b"\n") * (full % 1000))
            if rem:
                fh.write(line[:rem] + b"\n")
        else:
            fh.write(b"ACGT" * (L // 4) + b"A" * (L % 4) + b"\n")
    bound = 6 * bs + 65536
    ctx.nontrivial([bs, mult, shape])

    def measure(label, fn):
        tracemalloc.start()
        tracemalloc.reset_peak()
        base = tracemalloc.get_traced_memory()[0]
        try:
            res = fn()
        finally:
            peak = tracemalloc.get_traced_memory()[1] - base
            tracemalloc.stop()
        ctx.count(f"mem:{label}")
        ctx.note(f"peak:{label}:buffer={bs}:{shape}", f"{peak} bytes = {peak / bs:.2f} x buffer (bound {bound})")
        if peak > bound:
            ctx.violation(f"memory-not-bounded-{label}", f"{label}: traced peak {peak} bytes = {peak / bs:.1f} x buffer {bs} (bound {bound}) for {L} residues", case)
        return res

    idx = measure("indexing", lambda: index_fasta_file(p, bs))

    def via_class():
        from tola.fasta.index import FastaIndex

        for q in (Path(str(p) + ".fai"), Path(str(p) + ".agp")):
            q.unlink(missing_ok=True)
        fi_ = FastaIndex(p, bs)
        fi_.auto_load()
        return fi_.index, fi_.assembly

    idx2 = measure("indexing-via-FastaIndex", via_class)
    if idx_plain(*idx2) != idx_plain(*idx):
        ctx.violation("index-via-class-differs", "FastaIndex.auto_load() and index_fasta_file() disagree", case)
    for q in (Path(str(p) + ".fai"), Path(str(p) + ".agp")):
        q.unlink(missing_ok=True)
    info = idx[0]["big"]
    if info.length != L:
        ctx.violation("index-length", f"{info.length} vs {L}", case)
        return
    fi = open_index(p, bs, ctx, case_ref, idx)
    try:
        for label, rows in (
            ("stream-forward", [Fragment("big", 5, L - 3, 1)]),
            ("stream-reverse", [Fragment("big", 5, L - 3, -1)]),
            ("stream-gap", [Gap(L, "scaffold")]),
        ):
            sink = Sink()
            measure(label, lambda rows=rows, sink=sink: FastaStream(sink, fi).write_scaffold(Scaffold("x", rows)))
            want = sum(r.length for r in rows)
            if sink.n != len(b">x\n") + want + -(-want // 60):
                ctx.violation("stream-size", f"{label}: wrote {sink.n} bytes for {want} residues", case)
            # the same, unwrapped (one line per record): the consumer must still not accumulate
            sink = Sink()
            measure(label + "-unwrapped", lambda rows=rows, sink=sink: FastaStream(sink, fi, line_length=10**9).write_scaffold(Scaffold("x", rows)))
            if sink.n != len(b">x\n") + want + 1:
                ctx.violation("stream-size", f"{label} unwrapped: wrote {sink.n} bytes for {want} residues", case)
    finally:
        fi.fasta_fileandle.fh.close()
        p.unlink()


def run(shard, ctx):
    scratch = os.environ.get("VERIF_SHARD_SCRATCH", ".")
    case_ref = {}
    attach(ctx, case_ref)
    if shard["kind"] == "diff":
        for i in range(shard["n"]):
            rng = rng_for(shard["seed"], "c13", shard["index"], i)
            data, meta = gfa.gen_fasta(rng, maxlen=400)
            w = rng.choice(meta["widths"])
            L = len(rng.choice(meta["records"])[1])
            buffers = sorted({1, 2, 3, 5, 7, max(1, w - 1), w, w + 1, max(1, L - 1), L, L + 1, 250000})
            if i % 5 == 0:
                # "larger than everything" values people pass: 2**31, 2**40, sys.maxsize
                buffers += [rng.choice([2**31, 2**31 + 1, 2**40, 2**63 - 1])]
                ctx.count("diff:cases-with-huge-buffer")
            scs = gfa.gen_sub_assembly(rng, meta["records"], rng.choice(buffers[:-1]))
            fl = [r[3] - r[2] + 1 for s in scs for r in s[1] if r[0] == "F"]
            if fl:
                f = rng.choice(fl)
                buffers = sorted(set(buffers) | {max(1, f - 1), f, f + 1})
            check_differential(ctx, data, scs, buffers, scratch, case_ref)
    else:
        for bs, mult, shape in shard["cases"]:
            check_memory(ctx, bs, mult, scratch, case_ref, shape)


def replay(case, ctx):
    case_ref = {}
    attach(ctx, case_ref)
    scratch = os.environ.get("VERIF_SHARD_SCRATCH", ".")
    if case["kind"] == "diff":
        check_differential(ctx, base64.b64decode(case["data"]), case["scaffolds"], case["buffers"], scratch, case_ref, second=case.get("second"))
    else:
        check_memory(ctx, case["buffer"], case["mult"], scratch, case_ref, case["shape"])


def plan(tier, seed):
    n, per = (10, 60) if tier == "quick" else (12, 4000)
    sh = [{"kind": "diff", "n": per} for _ in range(n)]
    mem = [(4096, 400, "wrapped"), (50000, 400, "wrapped"), (4096, 300, "n-run"), (20000, 330, "wrapped"), (4096, 350, "after-short-record")]
    if tier == "thorough":
        mem += [(1000, 400, "wrapped"), (250000, 300, "wrapped"), (50000, 300, "wrapped"), (20000, 350, "wrapped"), (8192, 1000, "wrapped")]
    sh += [{"kind": "mem", "cases": [m]} for m in mem]
    return sh


def gates(c, tier):
    need = {
        "diff:cases-ok": 500,
        "diff:buffer-runs": 5000,
        "diff:second-stream-from-same-index": 5000,
        "diff:cases-with-huge-buffer": 50,
        "io:reads": 10000,
        "io:chunks:fwd_chunks": 5000,
        "io:chunks:rev_chunks": 2000,
        "io:chunks:get_gap_iter": 2000,
        "io:full-chunks": 1000,
        "mem:indexing": 5,
        "mem:indexing-via-FastaIndex": 4,
        "mem:stream-forward": 4,
        "mem:stream-reverse": 4,
        "mem:stream-gap": 4,
        "mem:stream-forward-unwrapped": 4,
    }
    return [f"{k}>={v} (got {c.get(k, 0)})" for k, v in need.items() if c.get(k, 0) < v]
