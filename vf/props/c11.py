"""C11  Curation statistics count the real cuts, breaks and joins.

Oracle: vf.ref.junction_ref (independent adjacency counter) vs
AssemblyStats.cuts/breaks/joins; metamorphic leg: recomputing the statistics
with any whole scaffold reversed (input or output) must give the same numbers;
CLI slice: 'Curation made ...' log line and info.yaml vs the written files.
"""

import os
import re
from pathlib import Path

from vf import workloads
from vf.core import build_scaffolds, rng_for
from vf.ref import agp_ref, junction_ref, tpf_ref

ID = "C11"
LEVEL = "exploration"
RULE = (
    "case = completed remap of (input, map, t) with forward and reverse input contigs, 1-bp contigs, cut contigs, any "
    "piece orientations (PretextView-model, designed-tag, two-haplotype and hostile maps): reported cuts/breaks/joins "
    "vs an independent adjacency counter over contig ends (name, coordinate, lo|hi); plus whole-scaffold reversal of "
    "input and output before recomputing; CLI slice compares the log line and info.yaml with counts recomputed from "
    "the written files. Non-trivial = at least one cut, break or join; distinct = distinct (input, pretext, t)."
)
ASSUMPTIONS = ["strands are +1/-1 (the statistics code rejects strand 0)"]


def oracle(case, outcome, ctx):
    from tola.assembly.assembly import Assembly
    from tola.assembly.assembly_stats import AssemblyStats

    ctx.case()
    if not outcome["ok"]:
        return
    ref = junction_ref.count(case["input"], outcome["out"])
    got = outcome["stats"]
    exp = {k: ref[k] for k in ("cuts", "breaks", "joins")}
    stripped = {k: v for k, v in case.items() if k != "labels"}
    if any(exp.values()):
        ctx.nontrivial([case["input"], case["pretext"], case["t"]])
    for k in ("cuts", "breaks", "joins"):
        if exp[k]:
            ctx.count(f"cases-with:{k}")
    mixed = any(a[2] == b[2] for e in (ref["in"] | ref["out"]) for a, b in [tuple(e)] if len(e) == 2)
    if mixed:
        ctx.count("cases-with:head-to-head-or-tail-to-tail-junction")
    if got != exp:
        which = [k for k in ("cuts", "breaks", "joins") if got[k] != exp[k]]
        ctx.violation(
            "reported-" + "+".join(which) + "-differ",
            f"reported {got}, adjacency counter gives {exp}\nbroken={sorted(map(sorted, ref['in'] - ref['out']))[:4]}\njoined={sorted(map(sorted, ref['out'] - ref['in']))[:4]}\n"
            f"gen={case['gen']} t={case['t']}\ninput={case['input']}\npretext={case['pretext']}\noutput={outcome['out']}",
            stripped,
        )
        return
    # the result (and with it the statistics) asked for a second time from the same object: same figures
    ba = outcome.get("ba")
    if ba is not None and hash(str(case.get("id"))) % 4 == 1:
        try:
            ba.assemblies_with_scaffolds_fused()
            st2 = ba.assembly_stats
            again = {"cuts": st2.cuts, "breaks": st2.breaks, "joins": st2.joins}
            ctx.count("second-call:statistics-compared")
            if again != exp:
                ctx.violation("statistics-change-when-the-result-is-asked-for-again", f"second call reports {again}, expected {exp}", stripped)
                return
        except Exception as e:  # noqa: BLE001
            ctx.violation(f"second-call-raised-{type(e).__name__}", str(e)[:300], stripped)
            return
    # metamorphic leg on the real statistics code: reverse whole scaffolds, recompute
    rng = rng_for(case["id"][0], "c11rev", case["id"][1], case["id"][2]) if "id" in case else rng_for(0, "c11rev")
    out_obj = outcome["out_obj"]
    try:
        in_scs = build_scaffolds(case["input"])
        in_rev = [s.reverse() if rng.random() < 0.5 else s for s in in_scs]
        out_rev = {}
        for k, a in out_obj.items():
            na = Assembly(a.name)
            for s in a.scaffolds:
                na.add_scaffold(s.reverse() if rng.random() < 0.5 else s)
            out_rev[k] = na
        for label, inp_use, out_use in (("input-reversed", in_rev, out_obj), ("output-reversed", in_scs, out_rev), ("both-reversed", in_rev, out_rev)):
            st = AssemblyStats()
            st.input_assembly = Assembly("in", scaffolds=inp_use)
            st.make_stats(out_use)
            ctx.count(f"metamorphic:{label}")
            if (st.breaks, st.joins) != (exp["breaks"], exp["joins"]):
                ctx.violation(
                    "counts-change-when-whole-scaffold-reversed",
                    f"{label}: breaks/joins {(st.breaks, st.joins)} vs {(exp['breaks'], exp['joins'])}\ninput={case['input']}\noutput={outcome['out']}",
                    stripped,
                )
                return
        # an adjacency is a pair of contig ends: what the scaffolds are called does not enter into it,
        # so giving every output scaffold of an assembly the same name changes neither count
        from tola.assembly.scaffold import Scaffold

        alike = {}
        for k, a in out_obj.items():
            na = Assembly(a.name)
            for s in a.scaffolds:
                na.add_scaffold(Scaffold("same_name", rows=s.rows))
            alike[k] = na
        st = AssemblyStats()
        st.input_assembly = Assembly("in", scaffolds=in_scs)
        st.make_stats(alike)
        ctx.count("metamorphic:output-scaffolds-named-alike")
        if (st.breaks, st.joins) != (exp["breaks"], exp["joins"]):
            ctx.violation("counts-change-when-output-scaffolds-share-a-name", f"breaks/joins {(st.breaks, st.joins)} vs {(exp['breaks'], exp['joins'])}\ninput={case['input']}\noutput={outcome['out']}", stripped)
            return
        # every contig a scaffold of its own: every input adjacency is broken, nothing is joined, and with one
        # assembly prefix in, the Primary entry of the per-assembly report says exactly that
        from tola.assembly.fragment import Fragment

        alone = Assembly("alone")
        for s in in_scs:
            for r in s.rows:
                if isinstance(r, Fragment):
                    alone.add_scaffold(Scaffold(f"alone_{len(alone.scaffolds)}", rows=[r]))
        st = AssemblyStats()
        st.input_assembly = Assembly("in", scaffolds=in_scs)
        st.make_stats({None: alone})
        ctx.count("metamorphic:every-contig-alone")
        if st.joins != 0 or st.breaks != exp["breaks"] + len(ref["in"] & ref["out"]):
            ctx.violation("every-contig-alone:totals", f"breaks/joins {(st.breaks, st.joins)}; the input has {exp['breaks'] + len(ref['in'] & ref['out'])} adjacencies\ninput={case['input']}", stripped)
            return
        firsts = [next(s.fragments(), None) for s in in_scs]
        if st.breaks and not any(f is not None and re.match(r"[A-Za-z]+\d+_", f.name) for f in firsts):
            ctx.count("metamorphic:every-contig-alone:primary-entry-checked")
            ent = st.per_assembly_stats.get("Primary")
            if ent != {"manual_breaks": st.breaks, "manual_joins": 0}:
                ctx.violation("every-contig-alone:primary-entry-missing-or-differs", f"{st.breaks} breaks, no joins, but per-assembly report = {st.per_assembly_stats}\ninput={case['input']}", stripped)
                return
        # the same Scaffold objects counted, edited, counted again: the second count is that of the edited rows
        if len(in_scs) >= 2 and in_scs[0].rows and in_scs[1].rows:
            a_, b_ = in_scs[0], in_scs[1]
            a_.fragment_junction_set()
            b_.fragment_junction_set()
            a_.append_scaffold(b_)  # no gap: the two scaffolds become one, one adjacency more
            edited = [a_] + in_scs[2:]
            fresh = build_scaffolds([[case["input"][0][0], case["input"][0][1] + case["input"][1][1]]] + case["input"][2:])
            res2 = []
            for inp_use in (edited, fresh):
                st = AssemblyStats()
                st.input_assembly = Assembly("in", scaffolds=inp_use)
                st.make_stats(out_obj)
                res2.append((st.breaks, st.joins))
            ctx.count("metamorphic:input-scaffold-edited-between-counts")
            if res2[0] != res2[1]:
                ctx.violation("counts-of-edited-scaffold-objects-differ-from-fresh-objects", f"same rows: edited objects give breaks/joins {res2[0]}, freshly built ones {res2[1]}\ninput={case['input']}", stripped)
                return
    except Exception as e:  # noqa: BLE001
        ctx.violation(f"statistics-raised-{type(e).__name__}", f"make_stats on reversed scaffolds raised {e}", stripped)
        return
    ctx.count("stats-ok")
    if len(ctx.samples) < 2 and all(exp.values()):
        ctx.sample({"t": case["t"], "input": case["input"][:3], "pretext": case["pretext"][:4], "reported": got, "recounted": exp})


def check_cli(cr, ctx):
    import yaml
    from vf import cli_runs

    ctx.case()
    fmt = "tpf" if cr["assembly_file"].suffix == ".tpf" else "agp"
    stale = bool(cr.get("stale_info_yaml"))
    if stale:
        # the report of an earlier curation written under the same output name is still in the directory
        (cr["dir"] / "out.info.yaml").write_text("assemblies:\n  old1:\n    manual_breaks: 77\n    manual_joins: 88\nmanual_haplotig_removals: 9\n")
        ctx.count("cli:report-of-an-earlier-run-in-place")
    res = cli_runs.run_pretext_to_asm(cr, out_name=f"out.{fmt}")
    if res["exit_code"] != 0:
        ctx.count("cli:error-exit")
        return
    out = []
    htig_scaffolds = None
    for p in sorted(cr["dir"].iterdir()):
        n = p.name
        if n.startswith("out.") and n.endswith("." + fmt):
            scs = (tpf_ref if fmt == "tpf" else agp_ref).parse(p.read_text())[0]["scaffolds"]
            out.append([n, scs])
            if "haplotigs" in n and "all_haplotigs" not in n:
                htig_scaffolds = len(scs)
    ref = junction_ref.count(cr["input"], out)
    case = cli_runs.case_of(cr, {"stale_info_yaml": stale, "cuts_only": bool(cr.get("cuts_only"))})
    log = (cr["dir"] / "out.log").read_text()
    m = re.search(r"Curation made (\d+) cuts? in (?:a )?contigs?, (\d+) breaks? at (?:a )?gaps? and (\d+) joins?", log)
    if not m:
        ctx.violation("log-line-missing", f"no 'Curation made' line in log:\n{log[-400:]}", case)
        return
    got = tuple(int(x) for x in m.groups())
    exp = (ref["cuts"], ref["breaks"], ref["joins"])
    ctx.nontrivial(case["files"])
    if cr.get("cuts_only"):
        # Primary mode with several other haplotypes: the all_haplotigs file may hold same-named scaffolds of two
        # haplotypes one after the other, which read back as one (C07's known finding D11) - adjacencies cannot be
        # recounted from that file; the number of fragments can
        ctx.count("cli:three-or-more-haplotypes:cuts-recounted")
        if got[0] != exp[0]:
            ctx.violation("log-line-cuts-differ-from-written-files", f"log says {got[0]} cuts, the files hold {exp[0]} more fragments than the input has contigs", case)
        return
    if got != exp:
        ctx.violation("log-line-counts-differ-from-written-files", f"log says cuts/breaks/joins {got}, files give {exp}", case)
        return
    if not (cr["dir"] / "out.info.yaml").exists():
        ctx.violation("statistics-report-not-written", "the run succeeded and wrote its assemblies but no <output>.info.yaml", case)
        return
    try:
        info = yaml.safe_load((cr["dir"] / "out.info.yaml").read_text())
        if not isinstance(info, dict):
            raise ValueError(f"not a mapping: {info!r}")
    except Exception as e:  # noqa: BLE001
        ctx.violation("statistics-report-unreadable", f"info.yaml after the run cannot be read: {type(e).__name__}: {str(e)[:300]}", case)
        return
    if stale and "old1" in (info.get("assemblies") or {}):
        ctx.violation("statistics-report-is-that-of-an-earlier-run", f"info.yaml after the run: {info}", case)
        return
    if "null:contig-level-input" in (cr.get("labels") or []):
        ctx.count("cli:contig-level-null-runs")
    hr = info.get("manual_haplotig_removals")
    if hr != (htig_scaffolds or 0):
        ctx.violation("haplotig-removal-count", f"info.yaml manual_haplotig_removals={hr}, haplotig file has {htig_scaffolds} scaffolds", case)
        return
    if htig_scaffolds:
        ctx.count("cli:with-haplotigs")
    if "manual_breaks" in info and (info["manual_breaks"], info["manual_joins"]) != exp[1:]:
        ctx.violation("yaml-totals-differ", f"info.yaml {info['manual_breaks']}/{info['manual_joins']} vs {exp[1:]}", case)
        return
    # one assembly prefix in, no haplotype assemblies out: every break is a break of the primary assembly
    # ((input - primary) & (input - output) = input - output), so the report has a Primary entry that says so
    names = [n for n, _ in out]
    # (the code takes an input scaffold's assembly prefix from the name of its first contig: `hap1_...`)
    in_scs_ = cr["input"]["scaffolds"] if isinstance(cr["input"], dict) else cr["input"]
    firsts = [next((r[1] for r in sc[1] if r[0] == "F"), None) for sc in in_scs_]
    plain_in = not any(f is not None and re.match(r"[A-Za-z]+\d+_", f) for f in firsts)
    prim = f"out.1.primary.curated.{fmt}"
    plain_out = all(n == prim or n in (f"out.1.additional_haplotigs.curated.{fmt}", f"out.1.contaminants.{fmt}", f"out.1.falseduplicates.{fmt}") for n in names)
    if plain_in and plain_out and exp[1] > 0 and any(n == prim and scs for n, scs in out):
        ctx.count("cli:single-prefix:primary-entry-checked")
        ent = (info.get("assemblies") or {}).get("Primary")
        if not isinstance(ent, dict) or ent.get("manual_breaks") != exp[1]:
            ctx.violation("yaml-primary-entry-missing-or-differs", f"{exp[1]} breaks, all of the primary assembly, but info.yaml assemblies = {info.get('assemblies')}", case)
            return
    ctx.count("cli:ok")


def run_cli(shard, ctx):
    from vf import cli_runs

    scratch = Path(os.environ.get("VERIF_SHARD_SCRATCH", "."))
    for i in range(shard["n"]):
        rng = rng_for(shard["seed"], "c11cli", shard["index"], i)
        if i % 10 == 9:
            cr = cli_runs.text_case(rng, scratch / f"c{i}", fmt=rng.choice(["tpf", "agp"]), strands=(1, -1), contig_level_null=True)
            cr["stale_info_yaml"] = True
        elif i % 10 == 6:
            cr = cli_runs.text_case(rng, scratch / f"c{i}", fmt="agp", nhap=rng.choice([3, 4]))
            cr["cuts_only"] = True
        else:
            cr = cli_runs.text_case(rng, scratch / f"c{i}", fmt=rng.choice(["tpf", "agp"]), tagged=True, two_hap=(i % 4 == 3), strands=(1, -1))
            if i % 2 == 0 and cli_runs.add_haplotig_slivers(rng, cr):
                ctx.count("cli:cases-with-haplotig-slivers")
            cr["stale_info_yaml"] = i % 3 == 0
        try:
            check_cli(cr, ctx)
        finally:
            cli_runs.cleanup(cr)


def run(shard, ctx):
    if shard["kind"] == "cli":
        run_cli(shard, ctx)
    else:
        workloads.run_remap_batch(shard, ctx, kinds=tuple(shard["kinds"]), oracle=oracle, opts={"strands": [1, -1] if shard["index"] % 3 else None, "terminal_gaps": True})


def replay(case, ctx):
    if case["kind"] == "cli":
        from vf import cli_runs

        cr = cli_runs.restore_case(case, Path(os.environ.get("VERIF_SHARD_SCRATCH", ".")) / "replay")
        cr["stale_info_yaml"] = case.get("stale_info_yaml")
        cr["cuts_only"] = case.get("cuts_only")
        check_cli(cr, ctx)
    else:
        oracle(case, workloads.run_case(case), ctx)


def plan(tier, seed):
    n, per = (12, 2400) if tier == "quick" else (15, 40000)
    sh = [{"kind": "mem", "kinds": [["pv"], ["pv", "tag"], ["pv", "hostile", "tag2"]][k % 3], "n": per} for k in range(n)]
    nc, perc = (4, 60) if tier == "quick" else (16, 100)
    return sh + [{"kind": "cli", "n": perc} for _ in range(nc)]


def gates(c, tier):
    need = {
        "stats-ok": 3000,
        "cases-with:cuts": 500,
        "cases-with:breaks": 1000,
        "cases-with:joins": 1000,
        "cases-with:head-to-head-or-tail-to-tail-junction": 500,
        "metamorphic:both-reversed": 3000,
        "second-call:statistics-compared": 2000,
        "metamorphic:output-scaffolds-named-alike": 3000,
        "metamorphic:input-scaffold-edited-between-counts": 2000,
        "label:in:1bp-contig": 100,
        "label:cfg:prefix-assigned-again-after-remap": 1000,
        "label:in:gap-only-scaffold": 30,
        "cli:ok": 20,
        "cli:with-haplotigs": 3,
        "cli:cases-with-haplotig-slivers": 20,
        "cli:report-of-an-earlier-run-in-place": 30,
        "cli:contig-level-null-runs": 10,
        "cli:three-or-more-haplotypes:cuts-recounted": 10,
    }
    return [f"{k}>={v} (got {c.get(k, 0)})" for k, v in need.items() if c.get(k, 0) < v]
