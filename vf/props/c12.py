"""C12  Overlap lookup equals a brute-force scan of the scaffold.

Monitor: icontract post-condition + exception observer on the real
IndexedAssembly.find_overlaps; oracle: vf.ref.overlap_ref.scan.
Workloads: exhaustive small space, random large scaffolds, and (in situ) every
lookup the remap pipeline performs on generated PretextView maps.
"""

import itertools

from vf.core import build_scaffold, dump_row, dump_scaffold, rng_for
from vf.mon import contracts
from vf.ref import overlap_ref

ID = "C12"
LEVEL = "exploration"
RULE = (
    "cases = (scaffold, query interval) pairs: (1) every scaffold of <=4 rows with row kinds F/G and "
    "lengths 1..3 x every 1<=a<=b<=L+2 (exhaustive sub-space); (2) seeded random scaffolds of <=60 rows "
    "(consecutive gaps, gaps first/last, 1-bp rows) x intervals biased to row boundaries and beyond the end; "
    "(3) in situ: every lookup made by the remap pipeline on generated PretextView maps. A case is "
    "non-trivial when the query intersects at least one row; distinct = distinct (rows, a, b) serialisations."
)
ASSUMPTIONS = [
    "query domain 1 <= a <= b on a non-empty scaffold that exists in the assembly",
    "row identity is compared by value (name,start,end,strand,tags / length,type)",
]

_CTX = None
_CUR = {}


# harness-built cases in which the assembly's own scaffold list cannot say which scaffold a query is about
# (the scaffold was renamed after it was added; the assembly was built from a one-shot iterable)
KNOWN_SCAFFOLD = {}


def _scaffold_of(self, bait):
    if (id(self), bait.name) in KNOWN_SCAFFOLD:
        return KNOWN_SCAFFOLD[(id(self), bait.name)]
    for s in self.scaffolds:
        if s.name == bait.name:
            return s
    return None


def _check(ctx, scffld, bait, result, exc, origin):
    rows = [dump_row(r) for r in scffld.rows]
    a, b = bait.start, bait.end
    ctx.case()
    ctx.count(f"{origin}:queries")
    exp = overlap_ref.scan(rows, a, b)
    for lab in overlap_ref.classify(rows, a, b):
        ctx.count(f"class:{lab}")
    case = {"kind": "query", "rows": rows, "a": a, "b": b}
    if KNOWN_SCAFFOLD.get("mode"):
        case["mode"] = KNOWN_SCAFFOLD["mode"]
    if exc is not None:
        ctx.count("outcome:raised")
        sig = "raised-" + type(exc).__name__
        if exp is None:
            sig += "-on-empty-result-query"
        ctx.violation(sig, f"find_overlaps({a}-{b}) raised {type(exc).__name__}: {exc}\nrows={rows}", case)
        return
    if exp is None:
        ctx.count("outcome:none")
        if result is not None:
            ctx.violation(
                "returned-rows-where-none-expected",
                f"query {a}-{b} expected None, got rows={[dump_row(r) for r in result.rows]} rows={rows}",
                case,
            )
        return
    ctx.nontrivial([rows, a, b])
    ctx.count("outcome:found")
    i, j, s, e = exp
    if len(rows) >= 3 and (rows[0][0] == "G" or rows[-1][0] == "G"):
        ctx.sample({"rows": rows, "query": [a, b], "expected_rows": [i, j], "expected_span": [s, e], "origin": origin})
    if result is None:
        ctx.violation("returned-none-where-rows-expected", f"query {a}-{b} expected rows {i}..{j}, got None; rows={rows}", case)
        return
    got_rows = [dump_row(r) for r in result.rows]
    if got_rows != rows[i : j + 1]:
        ctx.violation("wrong-rows", f"query {a}-{b}: expected rows[{i}:{j + 1}]={rows[i:j + 1]} got {got_rows}; rows={rows}", case)
        return
    if (result.start, result.end) != (s, e):
        ctx.violation("wrong-span", f"query {a}-{b}: expected span {s}-{e} got {result.start}-{result.end}; rows={rows}", case)
        return
    if any(x is not y for x, y in zip(result.rows, scffld.rows[i : j + 1])):
        ctx.count("note:rows-equal-but-not-identical")
    if result.bait is not bait:
        ctx.count("note:bait-not-identical")


def attach(ctx, origin="insitu"):
    """Attach the C12 monitor to the real class (used in situ by other workloads too)."""
    from tola.assembly.indexed_assembly import IndexedAssembly

    state = {"origin": origin}

    def find_overlaps_matches_scan(self, bait, result):
        sc = _scaffold_of(self, bait)
        if sc is not None and sc.rows and 1 <= bait.start <= bait.end:
            _check(ctx, sc, bait, result, None, state["origin"])
        return True

    def on_exc(exc, args, kwargs):
        self = args[0]
        bait = args[1] if len(args) > 1 else kwargs.get("bait")
        sc = _scaffold_of(self, bait)
        if sc is not None and sc.rows and 1 <= bait.start <= bait.end:
            _check(ctx, sc, bait, None, exc, state["origin"])

    contracts.attach(IndexedAssembly, "find_overlaps", post=find_overlaps_matches_scan, on_exc=on_exc, label="C12.find_overlaps")
    return state


def _query(ia, name, a, b, strand=1):
    from tola.assembly.fragment import Fragment

    try:
        return ia.find_overlaps(Fragment(name, a, b, strand))
    except Exception:  # noqa: BLE001 - observed by the monitor
        return None


def _mk(rows):
    from tola.assembly.indexed_assembly import IndexedAssembly

    sc = build_scaffold(["s", rows])
    return IndexedAssembly("x", scaffolds=[sc])


def run_exhaustive(shard, ctx):
    part, nparts = shard["part"], shard["nparts"]
    kinds = [("F", ln) for ln in (1, 2, 3)] + [("G", ln) for ln in (1, 2, 3)]
    n = 0
    for nrows in range(1, shard.get("max_rows", 4) + 1):
        for combo in itertools.product(kinds, repeat=nrows):
            n += 1
            if n % nparts != part:
                continue
            rows = []
            for k, (kind, ln) in enumerate(combo):
                if kind == "F":
                    rows.append(["F", f"c{k}", 5, 5 + ln - 1, 1 if k % 2 else -1, []])
                else:
                    rows.append(["G", ln, "scaffold"])
            ia = _mk(rows)
            total = sum(c[1] for c in combo)
            ctx.count("exhaustive:scaffolds")
            for a in range(1, total + 3):
                for b in range(a, total + 3):
                    _query(ia, "s", a, b)
    ctx.note("exhaustive_subspace", f"rows<={shard.get('max_rows', 4)} x lengths 1..3 x all 1<=a<=b<=L+2: enumerated completely")


def gen_random_rows(rng, maxrows=60):
    rows = []
    n = rng.choice([1, 1, 2, 3, 5, 8, 13, 30, maxrows])
    pgap = rng.choice([0.1, 0.35, 0.6])
    for k in range(n):
        if rng.random() < pgap:
            rows.append(["G", rng.choice([1, 1, 2, 10, 100, 200, rng.randint(1, 1000)]), rng.choice(["scaffold", "contig"])])
        else:
            st = rng.randint(1, 10**rng.randint(0, 7))
            ln = rng.choice([1, 1, 2, rng.randint(1, 50), rng.randint(1, 100000)])
            rows.append(["F", f"c{k}", st, st + ln - 1, rng.choice([1, -1, 0]), []])
    mode = rng.random()
    if mode < 0.15:
        rows = [["G", rng.randint(1, 9), "scaffold"] for _ in range(rng.randint(1, 3))]  # all gaps
    elif mode < 0.35:
        rows.append(["G", rng.randint(1, 300), "scaffold"])  # trailing gap
        if rng.random() < 0.5:
            rows.append(["G", rng.randint(1, 3), "contig"])
    elif mode < 0.5:
        rows.insert(0, ["G", rng.randint(1, 300), "scaffold"])
    return rows


def run_random(shard, ctx):
    from tola.assembly.scaffold import Scaffold

    for i in range(shard["n"]):
        rng = rng_for(shard["seed"], "c12r", shard["index"], i)
        rows = gen_random_rows(rng)
        KNOWN_SCAFFOLD.clear()
        if i % 7 == 3:
            # a chromosome longer than 2**32 bp (lungfish-sized): lengths are plain integers
            k = rng.randrange(len(rows))
            rows[k] = ["F", f"big{k}", 1, rng.randint(2**32, 6 * 10**9), 1, []] if rows[k][0] == "F" else ["G", rng.randint(2**32, 5 * 10**9), "scaffold"]
            ctx.count("class:scaffold-longer-than-2^32")
        try:
            if i % 4 == 2:
                # the caller's row list is the caller's: re-using it afterwards must not reach into the assembly
                from tola.assembly.indexed_assembly import IndexedAssembly
                from tola.assembly.scaffold import Scaffold

                buf = list(build_scaffold(["s", rows]).rows)
                ia = IndexedAssembly("x", scaffolds=[Scaffold("s", buf)])
                buf.reverse()
                del buf[len(buf) // 2 :]
                ctx.count("class:callers-row-list-reused-after-construction")
            elif i % 4 == 1:
                # the scaffolds are handed over as a one-shot iterable (generator expression, iter, filter, map)
                from tola.assembly.indexed_assembly import IndexedAssembly

                KNOWN_SCAFFOLD.clear()
                sc_ = build_scaffold(["s", rows])
                src = [sc_, build_scaffold(["other", gen_random_rows(rng, maxrows=4)])]
                how = rng.choice(["genexp", "iter", "filter", "map"])
                it = {"genexp": (x for x in src if x.rows), "iter": iter(src), "filter": filter(lambda x: x.rows, src), "map": map(lambda x: x, src)}[how]
                ia = IndexedAssembly("x", scaffolds=it)
                KNOWN_SCAFFOLD[(id(ia), "s")] = sc_
                KNOWN_SCAFFOLD["mode"] = "one-shot-iterable"
                ctx.count("class:scaffolds-given-as-one-shot-iterable")
            else:
                KNOWN_SCAFFOLD.clear()
                ia = _mk(rows)
                if i % 8 == 0:
                    # the Scaffold object is renamed in place after it was added (as the naming steps of the
                    # pipeline do); the assembly is still asked under the name the scaffold was added as
                    sc_ = next(iter(ia.scaffolds))
                    KNOWN_SCAFFOLD[(id(ia), "s")] = sc_
                    if rng.random() < 0.5:
                        ia.add_scaffold(build_scaffold(["zz", gen_random_rows(rng, maxrows=5)]))
                        sc_.name = "zz2"
                    else:
                        sc_.name = rng.choice(["SUPER_1", "renamed", "s_unloc_1"])
                    KNOWN_SCAFFOLD["mode"] = "renamed-after-add"
                    ctx.count("class:scaffold-renamed-after-it-was-added")
                elif i % 8 == 4:
                    # rows of the indexed scaffold are replaced in place by rows of the same length (a contig
                    # turned round or re-tagged, a gap filled by an equally long contig, a contig masked to a
                    # gap): the lookup answers with the rows the scaffold has now
                    from tola.assembly.fragment import Fragment as _Fr
                    from tola.assembly.gap import Gap as _Gp

                    sc_ = next(iter(ia.scaffolds))
                    for _r in range(rng.randint(1, 3)):
                        k_ = rng.randrange(len(sc_.rows))
                        old_ = sc_.rows[k_]
                        m_ = rng.random()
                        if m_ < 0.4 and not hasattr(old_, "gap_type"):
                            sc_.rows[k_] = _Fr(old_.name, old_.start, old_.end, -old_.strand if old_.strand else 1, ("Edited",))
                        elif m_ < 0.7:
                            sc_.rows[k_] = _Fr(f"fill{k_}", 5, 4 + old_.length, 1)
                        else:
                            sc_.rows[k_] = _Gp(old_.length, "scaffold")
                    ctx.count("class:rows-replaced-in-place-after-indexing")
        except Exception as e:  # noqa: BLE001
            ctx.violation(f"indexing-scaffold-raised-{type(e).__name__}", f"IndexedAssembly(...) raised {type(e).__name__}: {e}; rows={rows[:6]}", {"kind": "query", "rows": rows, "a": 1, "b": 1})
            continue
        if i % 6 == 1:
            # an add that fails part-way (a row that is no row) leaves the assembly as it was: the repaired scaffold
            # is then added like any other and looked up
            bad_rows = gen_random_rows(rng, maxrows=8)
            bad = build_scaffold([f"again{i}", bad_rows])
            pos_ = rng.randrange(len(bad.rows) + 1)
            bad.rows.insert(pos_, None)
            try:
                ia.add_scaffold(bad)
                ctx.count("note:scaffold-with-a-non-row-accepted")
            except Exception:  # noqa: BLE001
                del bad.rows[pos_]
                try:
                    ia.add_scaffold(bad)
                    gb = [0]
                    for r in bad_rows:
                        gb.append(gb[-1] + (r[3] - r[2] + 1 if r[0] == "F" else r[1]))
                    for _k in range(8):
                        qa = max(1, rng.choice(gb) + rng.choice([-1, 0, 1]))
                        _query(ia, f"again{i}", qa, max(qa, rng.choice(gb) + rng.choice([0, 1, 5])), 1)
                    ctx.count("class:scaffold-added-again-after-a-failed-add")
                except Exception as e:  # noqa: BLE001
                    ctx.violation(f"add-after-failed-add-raised-{type(e).__name__}", f"{e}; rows={bad_rows[:6]}", {"kind": "query", "rows": bad_rows, "a": 1, "b": 1})
        if i % 5 == 2:
            # a second scaffold of the same name is refused - and must leave the first one usable
            other = build_scaffold(["s", gen_random_rows(rng)])
            try:
                ia.add_scaffold(other)
                ctx.count("note:duplicate-name-accepted")
            except ValueError:
                ctx.count("class:lookup-after-refused-duplicate-add")
        family = [ia]
        if i % 6 == 4:
            # assemblies derived from one another (the documented constructor for that is new_from_assembly),
            # each then extended with a DIFFERENT scaffold of the same new name: lookups stay per assembly
            from tola.assembly.assembly import Assembly
            from tola.assembly.indexed_assembly import IndexedAssembly

            try:
                b_ = IndexedAssembly.new_from_assembly(ia)
                c_ = IndexedAssembly.new_from_assembly(Assembly("plain", scaffolds=list(ia.scaffolds)))
                family += [b_, c_]
                trows = {}
                for asm_ in family:
                    trows[id(asm_)] = [r for r in gen_random_rows(rng, maxrows=8)]
                    asm_.add_scaffold(build_scaffold(["t", trows[id(asm_)]]))
                ctx.count("class:assemblies-derived-from-one-another")
            except Exception as e:  # noqa: BLE001
                ctx.violation(f"deriving-assembly-raised-{type(e).__name__}", f"{type(e).__name__}: {e}; rows={rows[:6]}", {"kind": "query", "rows": rows, "a": 1, "b": 1})
                continue
            for asm_ in family:
                tb = [0]
                for r in trows[id(asm_)]:
                    tb.append(tb[-1] + (r[3] - r[2] + 1 if r[0] == "F" else r[1]))
                for _ in range(12):
                    a = max(1, rng.choice(tb) + rng.choice([-1, 0, 1, 2]))
                    _query(asm_, "t", a, max(a, rng.choice(tb) + rng.choice([-1, 0, 1])), 1)
        bounds = [0]
        for r in rows:
            bounds.append(bounds[-1] + (r[3] - r[2] + 1 if r[0] == "F" else r[1]))
        total = bounds[-1]
        for _ in range(shard.get("queries", 30)):
            m = rng.random()
            if m < 0.6:
                a = max(1, rng.choice(bounds) + rng.choice([-1, 0, 1, 2]))
                b = max(a, rng.choice(bounds) + rng.choice([-1, 0, 1, 2]))
            elif m < 0.8:
                a = rng.randint(1, total + 5)
                b = rng.randint(a, total + 50)
            elif m < 0.9:
                a = rng.randint(max(1, total - 3), total + 3)
                b = a + rng.choice([0, 1, 1000])
            else:
                a = rng.randint(1, max(1, total))
                b = a
            asm_ = rng.choice(family)
            if _ == 5 and i % 3 == 1:
                # a scaffold added AFTER lookups have been made on the assembly is looked up like any other
                late = gen_random_rows(rng, maxrows=6)
                try:
                    asm_.add_scaffold(build_scaffold([f"late{i}", late]))
                    lb = [0]
                    for r in late:
                        lb.append(lb[-1] + (r[3] - r[2] + 1 if r[0] == "F" else r[1]))
                    for _k in range(6):
                        la = max(1, rng.choice(lb) + rng.choice([-1, 0, 1]))
                        _query(asm_, f"late{i}", la, max(la, rng.choice(lb) + rng.choice([0, 1, 5])), 1)
                    ctx.count("class:scaffold-added-after-lookups")
                except ValueError:
                    ctx.count("note:late-add-refused")
            if _ == 9 and i % 3 == 2:
                # the SAME Scaffold object gets another row and is indexed in a new assembly: lookups there follow
                # the rows it has now
                from tola.assembly.fragment import Fragment as _F
                from tola.assembly.indexed_assembly import IndexedAssembly as _IA

                sc_obj = asm_.scaffold_by_name("s")
                extra_len = rng.choice([1, 7, 1000])
                _ = sc_obj.length  # (its length has been asked for before, e.g. for a report)
                if i % 2:
                    sc_obj.add_row(_F(f"more{i}", 1, extra_len, 1))
                else:
                    sc_obj.rows.append(_F(f"more{i}", 1, extra_len, 1))  # rows is a plain list: edited directly
                try:
                    ia2 = _IA("again", scaffolds=[sc_obj])
                    for q in (total + 1, max(1, total - 2), total + extra_len):
                        _query(ia2, "s", q, q + rng.choice([0, 3, extra_len]), 1)
                    ctx.count("class:same-scaffold-object-edited-and-indexed-again")
                except Exception as e:  # noqa: BLE001
                    ctx.violation(f"indexing-scaffold-raised-{type(e).__name__}", f"{e}", {"kind": "query", "rows": rows, "a": 1, "b": 1})
                break
            r1 = _query(asm_, "s", a, b, rng.choice([1, -1]))
            if r1 is not None and r1.rows and rng.random() < 0.25:
                # callers edit the result they were given (discards, trims); asking again must answer afresh
                r1.rows.pop(rng.choice([0, -1]))
                r1.start += 1
                r1.end -= 1
                _query(asm_, "s", a, b, 1)
                ctx.count("class:same-query-after-editing-the-first-answer")


def run_insitu(shard, ctx):
    from vf import workloads

    workloads.run_remap_batch(shard, ctx, kinds=("pv", "hostile"), opts={"terminal_gaps": True})


def run(shard, ctx):
    attach(ctx, "insitu" if shard["kind"] == "insitu" else "direct")
    if shard["kind"] == "exhaustive":
        run_exhaustive(shard, ctx)
    elif shard["kind"] == "random":
        run_random(shard, ctx)
    elif shard["kind"] == "insitu":
        run_insitu(shard, ctx)
    ctx.count("monitor_evals:find_overlaps", contracts.evals("C12.find_overlaps"))


def replay(case, ctx):
    attach(ctx, "replay")
    KNOWN_SCAFFOLD.clear()
    if case.get("mode") == "one-shot-iterable":
        from tola.assembly.indexed_assembly import IndexedAssembly

        sc_ = build_scaffold(["s", case["rows"]])
        ia = IndexedAssembly("x", scaffolds=iter([sc_]))
        KNOWN_SCAFFOLD[(id(ia), "s")] = sc_
    else:
        ia = _mk(case["rows"])
        if case.get("mode") == "renamed-after-add":
            KNOWN_SCAFFOLD[(id(ia), "s")] = next(iter(ia.scaffolds))
            next(iter(ia.scaffolds)).name = "renamed"
    _query(ia, "s", case["a"], case["b"])


def plan(tier, seed):
    if tier == "quick":
        shards = [{"kind": "exhaustive", "part": p, "nparts": 6} for p in range(6)]
    else:
        shards = [{"kind": "exhaustive", "part": p, "nparts": 16, "max_rows": 5} for p in range(16)]
    nrand, per = (6, 2500) if tier == "quick" else (16, 20000)
    shards += [{"kind": "random", "n": per, "queries": 30} for _ in range(nrand)]
    nin, per = (4, 2000) if tier == "quick" else (16, 12000)
    shards += [{"kind": "insitu", "n": per} for _ in range(nin)]
    return shards


def gates(c, tier):
    need = {
        "exhaustive:scaffolds": 1554 if tier == "quick" else 9330,
        "class:only_trailing_gap": 1,
        "class:only_leading_gap": 1,
        "class:beyond_end": 1,
        "class:overruns_end": 1,
        "class:strip_leading_gap": 1,
        "class:strip_trailing_gap": 1,
        "class:one_row_hit": 1,
        "outcome:found": 1000,
        "outcome:none": 100,
        "insitu:queries": 100,
        "class:scaffold-longer-than-2^32": 50,
        "class:scaffolds-given-as-one-shot-iterable": 500,
        "class:scaffold-renamed-after-it-was-added": 500,
        "class:rows-replaced-in-place-after-indexing": 500,
        "class:scaffold-added-again-after-a-failed-add": 300,
        "class:lookup-after-refused-duplicate-add": 50,
        "class:assemblies-derived-from-one-another": 50,
        "class:same-scaffold-object-edited-and-indexed-again": 500,
        "class:callers-row-list-reused-after-construction": 1000,
        "class:scaffold-added-after-lookups": 500,
        "class:same-query-after-editing-the-first-answer": 1000,
        "monitor_evals:find_overlaps": 1000,
    }
    return [f"{k}>={v} (got {c.get(k, 0)})" for k, v in need.items() if c.get(k, 0) < v]


def summarize(c, tier):
    return {"exhaustive_subspace_complete": c.get("exhaustive:scaffolds", 0) == (1554 if tier == "quick" else 9330)}
