"""C18  Overlap results keep span and content consistent under every edit sequence.

Monitor (M2 shadow state): every OverlapResult born from a real lookup gets a
shadow (source scaffold rows, slice, coordinates).  After every mutating
method the invariant is recomputed from `rows` against the source scaffold.
The prediction law (overhang_if_*_removed == overhang observed after the next
discard) uses an icontract snapshot taken before the discard.
"""

import icontract  # noqa: F401  (contracts module needs it)

from vf.core import build_scaffold, dump_row, rng_for
from vf.mon import contracts
from vf.props import c12

ID = "C18"
LEVEL = "exploration"
RULE = (
    "case = one state of a tracked OverlapResult observed after a mutating method. Direct workload: seeded "
    "random scaffolds x baits x operation sequences (<=8) over {discard_start, discard_end, "
    "trim_large_overhangs(e), trim_fragment(first|last, keep flags)}, stopped at the first raise or when empty; "
    "in situ: all sequences the remap pipeline applies on generated PretextView and hostile maps. "
    "Non-trivial = object still has rows after the operation; distinct = distinct (source rows, bait, op trace)."
)
ASSUMPTIONS = [
    "only objects returned by IndexedAssembly.find_overlaps are tracked (hand-built ones are ignored)",
    "for rows of unknown orientation (strand 0) a shortening from either side counts as a sub-interval of the source row",
    "a sequence ends at the first operation that raises; state after a raise is not judged",
]


def _iv_len(a, b):
    return max(0, b - a + 1)


def _is_gap(r):
    return hasattr(r, "gap_type")


def _kept(src_row, S, row):
    """Scaffold coordinates of `row` (a sub-interval Fragment of src_row which starts at S), or None."""
    if _is_gap(row) or _is_gap(src_row):
        return None
    if (row.name, row.strand) != (src_row.name, src_row.strand):
        return None
    if row.start < src_row.start or row.end > src_row.end:
        return None
    fwd = (S + (row.start - src_row.start), S + (row.end - src_row.start))
    rev = (S + (src_row.end - row.end), S + (src_row.end - row.start))
    if src_row.strand == 1:
        return fwd
    if src_row.strand == -1:
        return rev
    return (fwd, rev)  # unknown orientation: a cut from either side is a sub-interval of the source row


def _enter(args, kwargs):
    sh = getattr(args[0], "_vf_shadow", None)
    if sh is not None:
        sh["depth"] += 1


def _abort(exc, args, kwargs):
    sh = getattr(args[0], "_vf_shadow", None)
    if sh is not None:
        sh["depth"] -= 1


def check_state(ctx, obj, op, extra=None):
    sh = getattr(obj, "_vf_shadow", None)
    if sh is None:
        return
    ctx.case()
    ctx.count(f"op:{op.split('(')[0]}")
    ctx.count(f"{sh['origin']}:states")
    if op != "lookup":
        sh["depth"] -= 1
    if sh["depth"] == 0:
        sh["trace"].append(op)  # nested calls (trim_large_overhangs -> discard_*) are replayed via their caller
    src, starts = sh["src"], sh["starts"]
    rows = obj.rows
    n = len(rows)
    bait = obj.bait

    def viol(sig, msg):
        case = {
            "kind": "trace",
            "rows": [dump_row(r) for r in src],
            "bait": dump_row(sh["bait0"]),
            "trace": list(sh["trace"]),
            "origin": sh["origin"],
        }
        ctx.violation(
            sig,
            f"{msg}\nafter {op}; trace={sh['trace']}\nbait={bait} start={obj.start} end={obj.end}\n"
            f"rows={[str(r) for r in rows]}\nsource={[str(r) for r in src]}",
            case,
        )

    total = sum(r.length for r in rows)
    if obj.end - obj.start + 1 != total:
        viol("span-length-differs-from-rows", f"end-start+1={obj.end - obj.start + 1} but rows total {total}")
        return
    if obj.length != obj.end - obj.start + 1:
        viol("length-property", f"length={obj.length}")
    if n == 0:
        ctx.count("state:emptied")
        return
    ctx.nontrivial([[dump_row(r) for r in src], dump_row(sh["bait0"]), sh["trace"]])
    if _is_gap(rows[0]) or _is_gap(rows[-1]):
        viol("terminal-gap-left-behind", "first/last row is a Gap")
        return
    # contiguous run of the source, only terminal fragments shortened, outward side only
    i0, j0 = sh["i"], sh["j"]
    structural = False
    ok = False
    shortened = False
    for i in range(i0, j0 - n + 2):
        good = True
        s_exp = e_exp = None
        short = False
        for k in range(n):
            r, sr = rows[k], src[i + k]
            S = starts[i + k]
            E = S + sr.length - 1
            if r is sr:
                ks, ke = S, E
            elif k in (0, n - 1) and (kept := _kept(sr, S, r)) is not None:
                alts = kept if isinstance(kept[0], tuple) else (kept,)
                # only the outward side may have been shortened
                alts = [(a, b) for a, b in alts if not (n > 1 and k == 0 and b != E) and not (n > 1 and k == n - 1 and a != S)]
                if n == 1:
                    alts = [ab for ab in alts if ab == (obj.start, obj.end)] or alts
                if not alts:
                    good = False
                    break
                ks, ke = alts[0]
                short = short or (ks, ke) != (S, E)
            else:
                good = False
                break
            if k == 0:
                s_exp = ks
            if k == n - 1:
                e_exp = ke
        if good:
            structural = True
            if (s_exp, e_exp) == (obj.start, obj.end):
                ok = True
                shortened = short
                break
    if not structural:
        viol("rows-not-a-contiguous-run-of-source", "rows are not a contiguous run of the source scaffold (terminal fragments shortened outward only)")
        return
    if not ok:
        viol("span-differs-from-scaffold-coordinates", f"span {obj.start}-{obj.end} is not the scaffold coordinates of the remaining rows")
        return
    if shortened:
        ctx.count("state:terminal-fragment-shortened")
        if len(sh["trace"]) >= 3:
            ctx.sample({"source_rows": [str(r) for r in src], "bait": str(sh["bait0"]), "ops": list(sh["trace"]),
                        "rows_now": [str(r) for r in rows], "span": [obj.start, obj.end], "origin": sh["origin"]})
    if n == 1:
        ctx.count("state:single-row")
    # derived figures = plain interval arithmetic
    exp = expected_figures(obj)
    for name, want in exp.items():
        got = getattr(obj, name[:-2])() if name.endswith("()") else getattr(obj, name)
        if got != want:
            viol("derived-figure:" + name.rstrip("()"), f"{name}={got}, interval arithmetic gives {want}")
    if exp["start_overhang"] > 0:
        ctx.count("state:positive-start-overhang")
    if exp["end_overhang"] > 0:
        ctx.count("state:positive-end-overhang")


def expected_figures(obj):
    bait, rows = obj.bait, obj.rows
    exp = {
        "start_overhang": bait.start - obj.start,
        "end_overhang": obj.end - bait.end,
        "start_row_bait_overlap": _iv_len(max(bait.start, obj.start), min(bait.end, obj.start + rows[0].length - 1)),
        "end_row_bait_overlap": _iv_len(max(bait.start, obj.end - rows[-1].length + 1), min(bait.end, obj.end)),
    }
    s2 = obj.start + rows[0].length
    for r in rows[1:]:
        if _is_gap(r):
            s2 += r.length
        else:
            break
    e2 = obj.end - rows[-1].length
    for r in reversed(rows[:-1]):
        if _is_gap(r):
            e2 -= r.length
        else:
            break
    exp["overhang_if_start_removed()"] = bait.start - s2
    exp["overhang_if_end_removed()"] = e2 - bait.end
    return exp


def attach(ctx, origin="insitu"):
    from tola.assembly import build_utils
    from tola.assembly.indexed_assembly import IndexedAssembly
    from tola.assembly.overlap_result import OverlapResult

    def premise_reports_plain_arithmetic(args, kwargs):
        # the what-if figures the resolver decides on are reported through the premise objects
        pr = args[0]
        obj = pr.scaffold
        if not getattr(obj, "rows", None):
            return
        e = expected_figures(obj)
        side = "start" if isinstance(pr, build_utils.StartOverhangPremise) else "end"
        want = {
            "bait_overlap": e[f"{side}_row_bait_overlap"],
            "overhang_if_applied": e[f"overhang_if_{side}_removed()"],
            "overhang_error_delta_if_applied": abs(e[f"overhang_if_{side}_removed()"]) - abs(e[f"{side}_overhang"]),
        }
        ctx.count(f"premise-figures-checked:{side}")
        for name, w in want.items():
            got = getattr(pr, name)
            if got != w:
                ctx.violation(f"premise-figure:{side}:{name}", f"{type(pr).__name__}.{name}={got}, interval arithmetic gives {w}; bait {obj.bait} span {obj.start}-{obj.end} rows {[str(r) for r in obj.rows][:6]}",
                              {"kind": "premise", "side": side})

    contracts.attach(build_utils.OverhangPremise, "improves", on_call=premise_reports_plain_arithmetic, label="C18.OverhangPremise.improves")

    def born(self, bait, result):
        if result is None or not isinstance(result, OverlapResult):
            return True
        sc = c12._scaffold_of(self, bait)
        if sc is None:
            return True
        src = list(sc.rows)
        starts = []
        p = 1
        for r in src:
            starts.append(p)
            p += r.length
        n = len(result.rows)
        # locate the slice by coordinates (gaps are shared singletons, identity is ambiguous)
        idx = None
        for i in range(len(src) - n + 1):
            if starts[i] == result.start and all(a is b for a, b in zip(result.rows, src[i : i + n])):
                idx = i
                break
        if idx is None:
            ctx.count("born:could-not-locate-slice")  # C12 reports this; nothing to track
            return True
        result._vf_shadow = {"src": src, "starts": starts, "i": idx, "j": idx + n - 1, "origin": origin, "trace": [], "bait0": bait, "depth": 0}
        ctx.count("tracked-objects")
        check_state(ctx, result, "lookup")
        return True

    contracts.attach(IndexedAssembly, "find_overlaps", post=born, label="C18.born")

    def after_discard_start(self, OLD):
        check_state(ctx, self, "discard_start")
        if getattr(self, "_vf_shadow", None) is not None and OLD.pred is not None:
            ctx.count("prediction-law:start")
            if self.bait.start - self.start != OLD.pred:
                ctx.violation(
                    "prediction-law-start",
                    f"overhang_if_start_removed()={OLD.pred} but start_overhang after discard_start={self.bait.start - self.start}",
                    None,
                )
        return True

    def after_discard_end(self, OLD):
        check_state(ctx, self, "discard_end")
        if getattr(self, "_vf_shadow", None) is not None and OLD.pred is not None:
            ctx.count("prediction-law:end")
            if self.end - self.bait.end != OLD.pred:
                ctx.violation(
                    "prediction-law-end",
                    f"overhang_if_end_removed()={OLD.pred} but end_overhang after discard_end={self.end - self.bait.end}",
                    None,
                )
        return True

    def pred_start(self):
        if getattr(self, "_vf_shadow", None) is None or not self.rows:
            return None
        return self.overhang_if_start_removed()

    def pred_end(self):
        if getattr(self, "_vf_shadow", None) is None or not self.rows:
            return None
        return self.overhang_if_end_removed()

    contracts.attach(OverlapResult, "discard_start", post=after_discard_start, snapshots=[(pred_start, "pred")], on_call=_enter, on_exc=_abort, label="C18.discard_start")
    contracts.attach(OverlapResult, "discard_end", post=after_discard_end, snapshots=[(pred_end, "pred")], on_call=_enter, on_exc=_abort, label="C18.discard_end")

    def after_tlo(self, err_length):
        check_state(ctx, self, f"trim_large_overhangs({err_length})")
        return True

    contracts.attach(OverlapResult, "trim_large_overhangs", post=after_tlo, on_call=_enter, on_exc=_abort, label="C18.trim_large_overhangs")

    def after_trim(self, trim, keep_start, keep_end, result):
        sh = getattr(self, "_vf_shadow", None)
        if sh is None:
            return True
        where = "first" if self.rows and self.rows[0] is result else "last"
        if self.rows and self.rows[0] is result and self.rows[-1] is result:
            where = "only"
        check_state(ctx, self, f"trim_fragment({where},{int(bool(keep_start))},{int(bool(keep_end))})")
        if "Cut" not in result.tags:
            ctx.count("note:trimmed-fragment-without-Cut-tag")
        # "cut a terminal fragment to the bait": on the side that is not kept the span stops at the bait
        trace = list(sh["trace"])
        case = {"kind": "trace", "rows": [dump_row(r) for r in sh["src"]], "bait": dump_row(sh["bait0"]), "trace": trace, "origin": sh["origin"]}
        if where in ("first", "only") and not keep_start:
            ctx.count("cut-reaches-bait:start-side")
            if self.start < self.bait.start:
                ctx.violation("cut-does-not-reach-bait:start", f"after trim_fragment of the first row (start not kept) the span starts at {self.start}, {self.bait.start - self.start} bp before the bait {self.bait}; trace={trace} rows={[str(r) for r in self.rows][:6]}", case)
        if where in ("last", "only") and not keep_end:
            ctx.count("cut-reaches-bait:end-side")
            if self.end > self.bait.end:
                ctx.violation("cut-does-not-reach-bait:end", f"after trim_fragment of the last row (end not kept) the span ends at {self.end}, {self.end - self.bait.end} bp after the bait {self.bait}; trace={trace} rows={[str(r) for r in self.rows][:6]}", case)
        return True

    contracts.attach(OverlapResult, "trim_fragment", post=after_trim, on_call=_enter, on_exc=_abort, label="C18.trim_fragment")


OPS = ["ds", "de", "tlo", "tf0", "tf1"]


def apply_op(r, op, arg):
    if op == "ds":
        r.discard_start()
    elif op == "de":
        r.discard_end()
    elif op == "tlo":
        r.trim_large_overhangs(arg)
    else:
        fr = r.rows[0 if op == "tf0" else -1]
        r.trim_fragment(fr, bool(arg & 1), bool(arg & 2))


def run_trace(ctx, rows, bait, trace):
    from tola.assembly.fragment import Fragment
    from tola.assembly.indexed_assembly import IndexedAssembly

    ia = IndexedAssembly("x", scaffolds=[build_scaffold(["s", rows])])
    b = Fragment("s", bait[2], bait[3], bait[4], tuple(bait[5]))
    if (bait[3] + len(rows)) % 5 == 0:
        # another scaffold of the same name is offered and refused: results born afterwards are still those of
        # the scaffold the assembly has
        other = [["F", "zz", 1, 3 + len(rows), 1, []], *[list(x) for x in reversed(rows)]]
        try:
            ia.add_scaffold(build_scaffold(["s", other]))
        except ValueError:
            ctx.count("direct:lookup-after-a-refused-scaffold-of-the-same-name")
    try:
        r = ia.find_overlaps(b)
    except Exception:  # noqa: BLE001 - C12's business
        ctx.count("direct:lookup-raised")
        return
    if r is None:
        ctx.count("direct:lookup-none")
        return
    # two what-if premises are taken on the result at the start and consulted again after every operation (a
    # resolver that keeps its premises): what they report is always the arithmetic of the result as it is NOW
    from tola.assembly import build_utils

    held = []
    if len(r.rows) > 1 and hasattr(r.rows[0], "strand") and hasattr(r.rows[-1], "strand"):
        held = [build_utils.StartOverhangPremise(r, r.rows[0]), build_utils.EndOverhangPremise(r, r.rows[-1])]
        for pr in held:
            pr.improves(1)  # (first consultation; checked by the monitor on improves)
    for op, arg in trace:
        if not r.rows:
            break
        try:
            apply_op(r, op, arg)
        except Exception as e:  # noqa: BLE001 - the operation does not accept this state
            ctx.count(f"direct:op-raised:{op}:{type(e).__name__}")
            break
        if r.rows and len(r.rows) > 1:
            for pr in held:
                pr.improves(1)
                ctx.count("direct:held-premise-consulted-after-an-operation")
    if (bait[2] + len(rows)) % 4 == 0:
        # the same Scaffold object gets a new first row (everything moves along) and is indexed in a new
        # assembly; a result born there, and what the operations make of it, is consistent with the scaffold as it is now
        sc = ia.scaffold_by_name("s")
        shift = 1 + (bait[3] % 50)
        sc.rows.insert(0, Fragment("front", 1, shift, 1))
        try:
            ia2 = IndexedAssembly("again", scaffolds=[sc])
            r2 = ia2.find_overlaps(Fragment("s", bait[2], bait[3] + shift, bait[4], tuple(bait[5])))
        except Exception:  # noqa: BLE001 - C12's business
            ctx.count("direct:lookup-raised")
            return
        ctx.count("direct:result-born-from-an-edited-scaffold-indexed-again")
        if r2 is not None:
            for op, arg in trace[:3]:
                if not r2.rows:
                    break
                try:
                    apply_op(r2, op, arg)
                except Exception as e:  # noqa: BLE001
                    ctx.count(f"direct:op-raised:{op}:{type(e).__name__}")
                    break


def run_direct(shard, ctx):
    for i in range(shard["n"]):
        rng = rng_for(shard["seed"], "c18", shard["index"], i)
        rows = c12.gen_random_rows(rng, maxrows=12)
        if rng.random() < 0.15 and len(rows) > 2:
            # the same contig interval placed twice (first and last row equal but distinct objects)
            fr = next((r for r in rows if r[0] == "F"), None)
            if fr is not None:
                rows = [list(fr), *rows[1:-1], list(fr)] if rng.random() < 0.5 else [*rows, list(fr)]
                ctx.count("direct:duplicate-fragment-rows")
        total = sum((r[3] - r[2] + 1) if r[0] == "F" else r[1] for r in rows)
        a = rng.randint(1, total + 3)
        b = rng.randint(a, total + 10)
        bait = ["F", "s", a, b, rng.choice([1, -1]), rng.choice([[], ["Painted"], ["Painted", "Hap1"]])]
        trace = []
        for _ in range(rng.randint(1, 8)):
            op = rng.choice(OPS)
            arg = rng.choice([0, 1, 2, 5, 20, 100, 1000]) if op == "tlo" else rng.randint(0, 3)
            trace.append([op, arg])
        run_trace(ctx, rows, bait, trace)


def run(shard, ctx):
    if shard["kind"] == "direct":
        attach(ctx, "direct")
        run_direct(shard, ctx)
    else:
        attach(ctx, "insitu")
        from vf import workloads

        workloads.run_remap_batch(shard, ctx, kinds=("pv", "pv", "hostile"), opts={"terminal_gaps": True})
    for lab in ("born", "discard_start", "discard_end", "trim_large_overhangs", "trim_fragment"):
        ctx.count(f"monitor_evals:{lab}", contracts.evals(f"C18.{lab}"))


def replay(case, ctx):
    attach(ctx, "replay")
    tr = []
    for op in case["trace"]:
        if op == "lookup":
            continue
        if op == "discard_start":
            tr.append(["ds", 0])
        elif op == "discard_end":
            tr.append(["de", 0])
        elif op.startswith("trim_large_overhangs"):
            tr.append(["tlo", int(op[op.index("(") + 1 : -1])])
        elif op.startswith("trim_fragment"):
            where, ks, ke = op[op.index("(") + 1 : -1].split(",")
            tr.append(["tf1" if where == "last" else "tf0", int(ks) + 2 * int(ke)])
    run_trace(ctx, case["rows"], case["bait"], tr)


def plan(tier, seed):
    nd, per = (8, 12000) if tier == "quick" else (16, 150000)
    ni, peri = (8, 1500) if tier == "quick" else (16, 15000)
    return [{"kind": "direct", "n": per} for _ in range(nd)] + [{"kind": "insitu", "n": peri} for _ in range(ni)]


def gates(c, tier):
    need = {
        "tracked-objects": 1000,
        "direct:lookup-after-a-refused-scaffold-of-the-same-name": 1000,
        "direct:result-born-from-an-edited-scaffold-indexed-again": 1000,
        "premise-figures-checked:start": 200,
        "premise-figures-checked:end": 200,
        "direct:held-premise-consulted-after-an-operation": 5000,
        "op:discard_start": 50,
        "op:discard_end": 50,
        "insitu:states": 500,
        "direct:states": 5000,
        "state:terminal-fragment-shortened": 50,
        "state:emptied": 10,
        "state:single-row": 100,
        "direct:duplicate-fragment-rows": 100,
        "prediction-law:start": 50,
        "prediction-law:end": 50,
        "monitor_evals:trim_fragment": 50,
        "monitor_evals:trim_large_overhangs": 500,
    }
    return [f"{k}>={v} (got {c.get(k, 0)})" for k, v in need.items() if c.get(k, 0) < v]
