"""C15  A stale, partial or concurrently rewritten index cache is never silently used.

Real forked processes run FastaIndex.auto_load() under a process-level
scheduler (vf.mon.sched).  Oracle: every auto_load that returns, and a fresh
auto_load after every history / crash / race, equals the reference index of the
FASTA file's *current* bytes (vf.ref.fasta_ref); any exception is loud and
allowed.  Three drivers: histories, crash points (every yield point incl.
every flush boundary), bounded-preemption interleavings of 2-3 processes.
"""

import hashlib
import itertools
import os
import shutil
import time
from pathlib import Path

from vf.core import rng_for
from vf.mon import sched
from vf.ref import fasta_ref

ID = "C15"
LEVEL = "fault_enumeration"
RULE = (
    "case = one execution of a driver: (1) a history over {rewrite FASTA with new content and later mtime, rewrite with "
    "mtime EQUAL to the cache, delete .fai, delete .agp, auto-load, auto-load killed at a random yield point} - all "
    "histories of length <=3 (quick) / <=4 (thorough) plus random ones up to length 10, mtimes set explicitly on a "
    "logical clock; (2) for each scenario {cold, stale both, .fai deleted, .agp deleted, equal mtime} x {2 records, "
    ">=300 records} the indexing process killed at EVERY yield point (statements of the cache functions, every raw "
    "write/flush, stat/replace), then a fresh auto-load per distinct on-disk state; (3) 2 processes with <=1 (quick) / "
    "<=2 (thorough) preemptions and 3 processes with <=1, every preemption position enumerated on the small scenarios, "
    "plus random-priority schedules. Non-trivial = execution in which a cache file was written or read; distinct = "
    "distinct (scenario, schedule trace / crash point / history)."
)
ASSUMPTIONS = [
    "process crashes only: completed write() calls persist, unflushed user-space buffers are lost; a single write() is not torn",
    "the FASTA file is not edited while an indexer is reading it (not in the property's alphabet)",
    "interleavings beyond the stated preemption bounds are not explored",
]

SMALL = b">r1 first\nACGTNNAC\nGT\n>r2\nACGT\n"
SMALL2 = b">r1\nACGTACGT\nGT\n>x2\nNNACGTNN\nAC\n>r3\nAC\n"


def large_fasta(rng, nrec=320):
    out = []
    for i in range(nrec):
        seq = bytes(rng.choice(b"ACGTN") for _ in range(rng.randint(20, 90)))
        out.append(b">rec%04d some description\n" % i + b"\n".join(seq[j : j + 30] for j in range(0, len(seq), 30)) + b"\n")
    return b"".join(out)


def reference(data):
    recs = fasta_ref.parse(data)
    idx = [fasta_ref.quintuple(r) for r in recs]
    asm = [(r["name"], [tuple(x) for x in fasta_ref.tiling(r)]) for r in recs]
    return idx, asm


def classify_result(res, ref):
    if res[0] == "ok":
        return "correct" if (res[1], res[2]) == ref else "WRONG"
    if res[0] == "exc":
        return "loud:" + res[1]
    return res[0]


def describe_wrong(res, ref):
    if res[1] != ref[0]:
        return f"index has {len(res[1])} records, expected {len(ref[0])}: {res[1][:2]} vs {ref[0][:2]}"
    for (n, rows), (_, want) in zip(res[2], ref[1]):
        if rows != want:
            return f"assembly of {n}: {rows[:4]} expected {want[:4]}"
    return f"assembly has {len(res[2])} scaffolds, expected {len(ref[1])}"


def wrong_sig(res, ref):
    if res[1] != ref[0]:
        return "empty-index" if not res[1] else ("truncated-index" if res[1] == ref[0][: len(res[1])] else "stale-or-foreign-index")
    if len(res[2]) < len(ref[1]) and res[2] == ref[1][: len(res[2])]:
        return "empty-assembly" if not res[2] else "truncated-assembly"
    return "stale-or-foreign-assembly"


class Scene:
    """A FASTA file with cache files in a chosen initial state, on a logical clock."""

    def __init__(self, d, name="a.fa", symlink=False, clockmode="logical"):
        # clockmode: "logical"   - FASTA mtimes 10 s apart in 2001, caches stamped onto the same clock
        #            "subsecond" - the same, 0.25 s apart (mtimes that differ only in their fraction)
        #            "future"    - FASTA mtimes 0.25 s apart and *ahead of the wall clock* (clock skew, files
        #                          copied with their times): cache files keep the mtime the tool gave them
        self.clockmode = clockmode
        self.dir = Path(d)
        self.dir.mkdir(parents=True, exist_ok=True)
        self.fa = self.dir / name
        # the FASTA may be given to the tool through a symbolic link; the cache then lives beside the link
        self.symlink = symlink
        self.real = (self.dir.parent / (self.dir.name + "-real") / name) if symlink else self.fa
        if symlink:
            self.real.parent.mkdir(parents=True, exist_ok=True)
        self.fai = Path(str(self.fa) + ".fai")
        self.agp = Path(str(self.fa) + ".agp")
        self.reset_clock()

    def reset_clock(self):
        self.clock = 1_000_000_000 if self.clockmode != "future" else int(time.time()) + 5000
        if self.clockmode == "dst":
            # 2001-10-28 00:20 UTC, 40 minutes before clocks go back in a zone with daylight saving (TZ is set
            # to such a zone for the shard): in the repeated hour a later instant has an earlier wall-clock time
            self.clock = 1004227200 + 1200

    def tick(self):
        self.clock += {"logical": 10, "dst": 600}.get(self.clockmode, 0.25)
        return self.clock

    def wipe(self):
        for p in list(self.dir.iterdir()):
            p.unlink()

    def write_fasta(self, data, mtime=None):
        self.real.write_bytes(data)
        if self.symlink and not self.fa.is_symlink():
            self.fa.symlink_to(self.real)
            t0 = self.tick()  # the link itself is as old as the first version of the file
            os.utime(self.fa, (t0, t0), follow_symlinks=False)
        t = mtime if mtime is not None else self.tick()
        os.utime(self.real, (t, t))
        self.data = data

    def stamp_caches(self):
        """Move cache files written 'now' onto the logical clock (time passes)."""
        if self.clockmode == "future":
            return
        t = self.tick()
        for p in (self.fai, self.agp):
            if p.exists() and p.stat().st_mtime > 1_500_000_000:
                os.utime(p, (t, t))

    def build_cache(self, data=None):
        """Valid cache for `data` (default: current FASTA), stamped newer than the FASTA."""
        from tola.fasta.index import FastaIndex

        cur = self.data
        if data is not None and data != cur:
            self.fa.write_bytes(data)
        for p in (self.fai, self.agp):
            p.unlink(missing_ok=True)
        t0 = self.fa.stat().st_mtime
        FastaIndex(self.fa, 50).auto_load()
        if data is not None and data != cur:
            self.fa.write_bytes(cur)
        os.utime(self.fa, (t0, t0))
        self.stamp_caches()

    def setup(self, scenario, data, old=None):
        self.wipe()
        self.reset_clock()
        self.write_fasta(data)
        if scenario == "cold":
            return
        if scenario == "fresh":
            self.build_cache()
        elif scenario == "stale":
            self.write_fasta(old or SMALL2)
            self.build_cache()
            self.write_fasta(data)  # newer than the cache
        elif scenario == "equal-mtime":
            self.write_fasta(old or SMALL2)
            self.build_cache()
            t = min(self.fai.stat().st_mtime, self.agp.stat().st_mtime)
            self.write_fasta(data, mtime=t)
        elif scenario == "fai-deleted":
            self.build_cache()
            self.fai.unlink()
        elif scenario == "agp-deleted":
            self.build_cache()
            self.agp.unlink()
        else:
            raise ValueError(scenario)

    def state_hash(self):
        h = hashlib.sha1()
        fm = self.fa.stat().st_mtime
        for p in sorted(self.dir.iterdir()):
            if p == self.fa:
                continue
            st = p.stat()
            rel = "newer" if st.st_mtime > fm else ("equal" if st.st_mtime == fm else "older")
            nm = p.name if p in (self.fai, self.agp) else "tmp:" + p.name.split(".")[-3 if p.name.endswith(".tmp") else -1]
            h.update(f"{nm}|{rel}|".encode() + hashlib.sha1(p.read_bytes()).digest())
        return h.hexdigest()[:16]

    def snapshot(self):
        return {p.name: (p.read_bytes(), p.stat().st_mtime) for p in self.dir.iterdir()}

    def restore(self, snap):
        self.wipe()
        for n, (b, t) in snap.items():
            (self.dir / n).write_bytes(b)
            os.utime(self.dir / n, (t, t))


SCENARIOS = ["cold", "stale", "equal-mtime", "fai-deleted", "agp-deleted", "fresh"]


def fresh_check(ctx, scene, ref, what, case):
    """A fresh auto-load on the current directory state must be correct or loud."""
    res = sched.run_plain(scene.fa)
    cls = classify_result(res, ref)
    ctx.count(f"fresh-load:{cls.split(':')[0]}")
    if cls == "WRONG":
        ctx.violation(f"{what}:fresh-load-silently-wrong:{wrong_sig(res, ref)}", f"{describe_wrong(res, ref)}\ncache files: " + str({p.name: p.stat().st_size for p in scene.dir.iterdir()}), case)
        return False
    return True


# ---------------------------------------------------------------------------
# driver 2: crash points
# ---------------------------------------------------------------------------

def setup_cli_output(scene, rng):
    from vf import cli_runs

    tmp = scene.dir.parent / "cliout"
    shutil.rmtree(tmp, ignore_errors=True)
    cr = cli_runs.fasta_case(rng, tmp, tagged=False)
    res = cli_runs.run_pretext_to_asm(cr, "cur.fa", ["--no-write-log"])
    cli_runs.release_logging()
    fas = sorted(tmp.glob("cur.*.fa"))
    if res["exit_code"] != 0 or not fas:
        return None
    scene.wipe()
    scene.reset_clock()
    for p in tmp.iterdir():
        if p.name.startswith("cur."):
            shutil.copy(p, scene.dir / p.name)
    scene.fa = scene.real = scene.dir / fas[0].name
    scene.fai = Path(str(scene.fa) + ".fai")
    scene.agp = Path(str(scene.fa) + ".agp")
    scene.data = scene.fa.read_bytes()
    t = scene.tick()
    for p in scene.dir.iterdir():
        os.utime(p, (t, t) if p == scene.fa else (t + 5, t + 5))  # side files are written just after the FASTA
    shutil.rmtree(tmp, ignore_errors=True)
    return scene.data


def run_crash(shard, ctx):
    scratch = Path(os.environ.get("VERIF_SHARD_SCRATCH", "."))
    rng = rng_for(shard["seed"], "c15crash", shard["index"])
    data = SMALL if shard["size"] == "small" else large_fasta(rng, 800)
    old = SMALL2 if shard["size"] == "small" else large_fasta(rng_for(shard["seed"], "old"), 700)
    ref = reference(data)
    scene = Scene(scratch / "crash")
    # every other shard: all processes of the history report one and the same process id (containers, hosts
    # sharing the directory, recycled ids) - a left-over temporary file is then met again under its own name
    same_pid = bool(shard.get("same_pid"))
    sched.FIXED_PID = 4242 if same_pid else None
    for scenario in shard["scenarios"]:
        if scenario == "cli-output":
            # the FASTA to be indexed is one that pretext-to-asm has just written, its side files beside it
            scene = Scene(scratch / "crash-cli")
            data_cli = setup_cli_output(scene, rng_for(shard["seed"], "c15cli", shard["index"]))
            if data_cli is None:
                ctx.count("crash:cli-output-setup-failed")
                continue
            ref = reference(data_cli)
            ctx.count("crash:cli-output-scenarios")
        else:
            scene.setup(scenario, data, old)
        snap = scene.snapshot()
        locs, res = sched.count_yield_points(scene.fa)
        ctx.count(f"crash:yield-points:{scenario}:{shard['size']}", len(locs))
        ctx.note(f"yield-points:{scenario}:{shard['size']}", f"{len(locs)} (raw file ops: {sum(1 for l in locs if l.startswith('raw:') or l.startswith('os.'))})")
        if classify_result(res, ref) == "WRONG":
            ctx.violation(f"crash:{scenario}:uninterrupted-run-wrong:{wrong_sig(res, ref)}", describe_wrong(res, ref), {"kind": "crash", "scenario": scenario, "size": shard["size"], "k": None, "seed": shard["seed"], "index": shard["index"], "same_pid": same_pid})
        states = {}
        ks = range(len(locs) + 1)
        if shard.get("stride", 1) > 1:
            # statement-level points may be strided on the large scenario; raw/os points never
            ks = [k for k in ks if k >= len(locs) or locs[k].startswith(("raw:", "os.")) or k % shard["stride"] == 0]
        for k in ks:
            scene.restore(snap)
            crashed, loc, _ = sched.run_until_crash(scene.fa, k)
            ctx.case()
            ctx.count("crash:runs")
            if crashed and loc.startswith("raw:"):
                ctx.count("crash:at-raw-file-op")
            sh = scene.state_hash()
            if sh in states:
                continue
            states[sh] = (k, loc)
            ctx.nontrivial(["crash", scenario, shard["size"], sh])
            case = {"kind": "crash", "scenario": scenario, "size": shard["size"], "k": k, "seed": shard["seed"], "index": shard["index"], "same_pid": same_pid}
            left = scene.snapshot() if any(p.name.endswith(".tmp") for p in scene.dir.iterdir()) else None
            if not fresh_check(ctx, scene, ref, f"crash:{scenario}:killed-at-{_locclass(loc)}", case):
                continue
            # and once more: the state left by that recovery must again be good
            fresh_check(ctx, scene, ref, f"crash:{scenario}:second-load-after-recovery", case)
            if left is not None and crashed:
                # the history goes on differently: after the kill (a temporary file is left behind) the FASTA
                # is replaced by a much shorter one, later; then it is loaded
                scene.restore(left)
                keep_fa, keep_real, keep_data = scene.fa, scene.real, scene.data
                scene.stamp_caches()
                cur = scene.fa.read_bytes()
                short = b">" + cur.split(b">")[1]
                scene.write_fasta(short)
                ctx.count("crash:then-fasta-shortened" + (":same-pid" if same_pid else ""))
                if fresh_check(ctx, scene, reference(short), f"crash:{scenario}:killed-at-{_locclass(loc)}:then-fasta-shortened", {**case, "then": "fasta-shortened"}):
                    # (the process that rebuilds holds the right index in memory; the next one reads what it wrote)
                    fresh_check(ctx, scene, reference(short), f"crash:{scenario}:killed-at-{_locclass(loc)}:then-fasta-shortened:second-load", {**case, "then": "fasta-shortened"})
                scene.data = keep_data
        # the same points again, but the interruption is an exception raised inside the process
        # (Ctrl-C at a statement, ENOSPC at a write/close): clean-up code runs, unlike after a kill
        ks2 = [k for k in range(len(locs)) if locs[k].startswith(("raw:", "os.")) or k % (3 if shard["size"] == "small" else 40) == 0]
        for k in ks2:
            scene.restore(snap)
            hit, loc, res = sched.run_until_interrupt(scene.fa, k)
            if not hit:
                continue
            ctx.case()
            ctx.count("interrupt:runs")
            if res and res[0] == "ok":
                ctx.count("interrupt:swallowed-by-the-code")
                if classify_result(res, ref) == "WRONG":
                    ctx.violation(f"interrupt:{scenario}:returned-silently-wrong:{wrong_sig(res, ref)}", describe_wrong(res, ref), {"kind": "interrupt", "scenario": scenario, "size": shard["size"], "k": k, "seed": shard["seed"], "index": shard["index"], "same_pid": same_pid})
            sh = "i" + scene.state_hash()
            if sh in states:
                continue
            states[sh] = (k, loc)
            ctx.nontrivial(["interrupt", scenario, shard["size"], sh])
            case = {"kind": "interrupt", "scenario": scenario, "size": shard["size"], "k": k, "seed": shard["seed"], "index": shard["index"], "same_pid": same_pid}
            fresh_check(ctx, scene, ref, f"interrupt:{scenario}:raised-at-{_locclass(loc)}", case)
        ctx.count(f"crash:distinct-states:{scenario}:{shard['size']}", len(states))
        if len(ctx.samples) < 2:
            ctx.sample({"driver": "crash", "scenario": scenario, "size": shard["size"], "yield_points": len(locs), "distinct_states": len(states), "some_points": locs[:: max(1, len(locs) // 12)][:14]})


def _locclass(loc):
    if loc is None:
        return "end"
    if loc.startswith("raw:") or loc.startswith("os."):
        return ":".join(loc.split(":")[:3]).replace("/", "")
    return loc.split(":")[0]


# ---------------------------------------------------------------------------
# driver 3: interleavings
# ---------------------------------------------------------------------------

def overlap_stats(trace):
    """Did a reader inspect/load the cache while another process was between its first
    cache write and its last?"""
    writing = {}
    overlapped = False
    for lab, loc in trace:
        if loc is None:
            continue
        if loc.startswith("raw:open") and ":w" in loc or loc.startswith("write_index"):
            writing[lab] = True
        if loc.startswith("raw:close:") and loc.endswith(".agp") and writing.get(lab):
            writing[lab] = "closing"
        if (loc.startswith("check_for_index_files") or loc.startswith("load_") or loc.startswith("raw:read")) and any(v for l2, v in writing.items() if l2 != lab and v is True):
            overlapped = True
    return overlapped


def judge_schedule(ctx, scene, ref, results, trace, what, case):
    ctx.case()
    ctx.count("sched:runs")
    key = hashlib.sha1("".join(l for l, _ in trace).encode()).hexdigest()[:16]
    ctx.nontrivial(["sched", what, key])
    if overlap_stats(trace):
        ctx.count("sched:reader-overlapped-writer")
    ok = True
    for lab, res in zip("ABC", results):
        cls = classify_result(res, ref)
        ctx.count(f"sched:outcome:{cls.split(':')[0]}")
        if res[0] == "ok":
            ctx.count("sched:outcome:" + ("rebuilt" if res[3] else "loaded-from-cache"))
        if cls == "WRONG":
            tail = [f"{l}:{loc}" for l, loc in trace[-10:]]
            ctx.violation(f"{what}:process-returned-silently-wrong:{wrong_sig(res, ref)}", f"process {lab}: {describe_wrong(res, ref)}\nschedule tail {tail}", case)
            ok = False
    if ok:
        ok = fresh_check(ctx, scene, ref, what, case)
    return ok


def run_sched(shard, ctx):
    scratch = Path(os.environ.get("VERIF_SHARD_SCRATCH", "."))
    rng = rng_for(shard["seed"], "c15sched", shard["index"])
    data = SMALL if shard["size"] == "small" else large_fasta(rng, 120)
    old = SMALL2
    ref = reference(data)
    scene = Scene(scratch / "sched")
    scenario = shard["scenario"]
    scene.setup(scenario, data, old)
    snap = scene.snapshot()
    locs, _ = sched.count_yield_points(scene.fa)
    n = len(locs)
    scene.restore(snap)
    mode = shard["mode"]
    plans = []
    if mode == "2p-b1":
        plans = [(2, [(0, k)]) for k in range(n + 1)]
    elif mode == "2p-b2":
        # A runs k1 steps, B runs k2 steps, A to the end, B to the end
        plans = [(2, [(0, k1), (1, k2), (0, None)]) for k1 in range(0, n + 1) for k2 in range(1, n + 60, shard.get("stride2", 1))]
    elif mode == "3p-b1":
        plans = [(3, [(0, k), (o1, None), (o2, None)]) for k in range(n + 1) for o1, o2 in ((1, 2), (2, 1))]
    elif mode == "3p-b2-fileops":
        # two preemptions among three processes, preemption positions at file operations:
        # A runs to a file op, B runs to a file op, A runs k3 more steps, C runs to the end, then A, B finish
        fo = [k for k, l in enumerate(locs) if l.startswith(("raw:", "os."))]
        fo = sorted(set(fo) | {k + 1 for k in fo})
        plans = [(3, [(0, k1), (1, k2), (0, k3), (2, None)]) for k1 in fo for k2 in fo for k3 in shard.get("k3", (1, 2, 3))]
    part, nparts = shard.get("part", 0), shard.get("nparts", 1)
    plans = [p for i, p in enumerate(plans) if i % nparts == part]
    for nproc, segs in plans:
        scene.restore(snap)
        results, trace = sched.run_segments(scene.fa, nproc, segs)
        case = {"kind": "sched", "scenario": scenario, "size": shard["size"], "nproc": nproc, "segments": segs, "seed": shard["seed"], "index": shard["index"]}
        judge_schedule(ctx, scene, ref, results, trace, f"race:{scenario}:{mode}", case)
    for r in range(shard.get("random", 0)):
        scene.restore(snap)
        rr = rng_for(shard["seed"], "prio", shard["index"], r)
        nproc = rr.choice([2, 2, 3])
        results, trace = sched.run_priority(scene.fa, nproc, rr, switch_prob=rr.choice([0.02, 0.1, 0.3]))
        case = {"kind": "sched-random", "scenario": scenario, "size": shard["size"], "r": r, "seed": shard["seed"], "index": shard["index"]}
        judge_schedule(ctx, scene, ref, results, trace, f"race:{scenario}:random-priority", case)
    ctx.count(f"sched:plans:{mode}", len(plans))
    if len(ctx.samples) < 1 and plans:
        ctx.sample({"driver": "interleavings", "scenario": scenario, "mode": mode, "yield_points_per_process": n, "schedules": len(plans), "example_segments": plans[len(plans) // 2][1]})


# ---------------------------------------------------------------------------
# driver 1: histories
# ---------------------------------------------------------------------------

KEPT = ["load-and-keep-object", "reload-kept-object"]
STEPS = ["rewrite", "rewrite-equal-mtime", "del-fai", "del-agp", "load", "crash-load", "load-after-edit-since-construction"]


def variant(rng, k):
    recs = []
    nl = b"\r\n" if rng.random() < 0.25 else b"\n"  # (a cache must bring back the line width of CRLF files too)
    names = [b"v%d_%d" % (k, i) for i in range(rng.randint(1, 4))]
    if rng.random() < 0.04:
        names = [b"v%d_%d" % (k, i) for i in range(rng.randint(1001, 1300))]  # more records than any block size
    if rng.random() < 0.5:
        names = [rng.choice([b"z", b"m10_", b"m2_", b"a", b"Z", b'"q', b'"x"']) + n for n in names]  # not in sorted order; quotes
    for nm in names:
        seq = bytes(rng.choice(b"ACGTN") for _ in range(rng.randint(1, 40)))
        w = rng.choice([5, 10, 60])
        recs.append(b">" + nm + nl + nl.join(seq[j : j + w] for j in range(0, len(seq), w)) + nl)
    out = b"".join(recs)
    # two more shapes, decided from the content (no draw from the history's own stream): the last line of the file
    # without its line end, and ambiguity codes other than N (no N anywhere in the file)
    import zlib

    h = zlib.crc32(out)
    if h % 4 == 0:
        out = out[: -len(nl)]
    if h % 5 == 1:
        out = out.replace(b"N", b"R")
    return out


def run_history(ctx, scene, hist, rng, case):
    scene.wipe()
    scene.reset_clock()
    k = 0
    kept = None
    scene.write_fasta(variant(rng, k))
    ctx.case()
    ctx.nontrivial(["history", hist])
    for step in hist:
        if step == "rewrite":
            k += 1
            scene.write_fasta(variant(rng, k))
        elif step == "rewrite-equal-mtime" and scene.clockmode == "future":
            # on this clock the caches carry wall-clock times *behind* the FASTA: giving the new FASTA their
            # time would move its mtime backwards, which no history of the property's alphabet does
            k += 1
            scene.write_fasta(variant(rng, k))
        elif step == "rewrite-equal-mtime":
            k += 1
            ms = [p.stat().st_mtime for p in (scene.fai, scene.agp) if p.exists()]
            scene.write_fasta(variant(rng, k), mtime=min(ms) if ms else None)
            ctx.count("history:equal-mtime-steps" if ms else "history:equal-mtime-steps-without-cache")
        elif step == "del-fai":
            scene.fai.unlink(missing_ok=True)
        elif step == "del-agp":
            scene.agp.unlink(missing_ok=True)
        elif step == "load-after-edit-since-construction":
            # the FastaIndex object is created, THEN the FASTA is rewritten (later mtime), then auto_load() runs
            p = sched.Proc("A", scene.fa)
            while not p.done and p.loc != "constructed":
                p.step()
            if p.done:
                continue
            k += 1
            scene.write_fasta(variant(rng, k))
            p.run_to_end()
            scene.stamp_caches()
            ref = reference(scene.data)
            cls = classify_result(p.result, ref)
            ctx.count(f"history:load-after-edit:{cls.split(':')[0]}")
            if cls == "WRONG":
                ctx.violation(f"history:object-created-before-edit-loaded-silently-wrong:{wrong_sig(p.result, ref)}", f"history {hist}: {describe_wrong(p.result, ref)}", case)
                return
        elif step == "load-and-keep-object":
            # in this process: the object stays alive across the following steps
            from tola.fasta.index import FastaIndex

            try:
                kept = FastaIndex(scene.fa, 50)
                kept.auto_load()
            except Exception:  # noqa: BLE001 - a loud failure is an allowed outcome
                kept = None
            scene.stamp_caches()
        elif step == "reload-kept-object":
            # a second auto_load() on the object kept above: refuse, or answer for the file as it is now
            if kept is None:
                continue
            ref = reference(scene.data)
            try:
                kept.auto_load()
                res = ("ok", *sched.result_of(kept))
            except Exception as e:  # noqa: BLE001
                res = ("exc", type(e).__name__)
            scene.stamp_caches()
            cls = classify_result(res, ref)
            ctx.count(f"history:reload-kept:{cls.split(':')[0]}")
            if cls == "WRONG":
                ctx.violation(f"history:second-load-of-one-object-silently-wrong:{wrong_sig(res, ref)}", f"history {hist}: {describe_wrong(res, ref)}", case)
                return
        elif step in ("load", "crash-load"):
            ref = reference(scene.data)
            fm = scene.fa.stat().st_mtime
            need_rebuild = any((not p.exists()) or not (p.stat().st_mtime > fm) for p in (scene.fai, scene.agp))
            if step == "crash-load":
                locs, _ = 0, None
                kk = rng.randint(0, 58)
                crashed, loc, res = sched.run_until_crash(scene.fa, kk)
                ctx.count("history:crash-loads" if crashed else "history:crash-loads-finished-first")
                scene.stamp_caches()
                if crashed:
                    continue
            else:
                res = sched.run_plain(scene.fa)
                scene.stamp_caches()
            cls = classify_result(res, ref)
            ctx.count(f"history:load:{cls.split(':')[0]}")
            if cls == "WRONG":
                ctx.violation(f"history:load-silently-wrong:{wrong_sig(res, ref)}", f"history {hist}: {describe_wrong(res, ref)}", case)
                return
            if res[0] == "ok":
                wrote = {os.path.basename(w)[-4:] for w in res[3] if w.endswith((".fai", ".agp"))}
                ctx.count("history:load:" + ("rebuilt" if wrote else "from-cache"))
                if need_rebuild and wrote != {".fai", ".agp"}:
                    ctx.violation("history:stale-or-missing-cache-not-rebuilt-both-together", f"history {hist}: cache needed a rebuild but this load wrote {sorted(wrote)}", case)
                    return
    ref = reference(scene.data)
    fresh_check(ctx, scene, ref, "history:final", case)
    ctx.count("history:ok")
    if len(ctx.samples) < 2 and len(hist) >= 4:
        ctx.sample({"driver": "history", "steps": hist})


def run_histories(shard, ctx):
    scratch = Path(os.environ.get("VERIF_SHARD_SCRATCH", "."))
    scene = Scene(scratch / "hist", symlink=shard.get("symlink", False), clockmode=shard.get("clock", "logical"))
    ctx.count(f"history:clock-{scene.clockmode}-shards")
    if scene.clockmode == "dst":
        os.environ["TZ"] = "GMT0BST,M3.5.0/1,M10.5.0/2"
        time.tzset()
    if shard.get("symlink"):
        ctx.count("history:fasta-via-symlink-shards")
    if shard["mode"] == "all":
        L = shard["length"]
        hists = [list(h) for n in range(1, L + 1) for h in itertools.product(STEPS, repeat=n) if any(s in ("load", "crash-load") for s in h)]
        hists = [h for i, h in enumerate(hists) if i % shard["nparts"] == shard["part"]]
        ctx.note("histories-enumerated", f"all histories of length <= {L} over {STEPS} containing a load")
    else:
        hists = []
        for i in range(shard["n"]):
            rng = rng_for(shard["seed"], "c15h", shard["index"], i)
            hists.append([rng.choice(STEPS + KEPT + ["load"]) for _ in range(rng.randint(4, 10))])
            if i % 4 == 0:
                # designed: an object loads, the file changes and someone else rebuilds, the object loads again
                hists[-1] = ["load-and-keep-object", rng.choice(["rewrite", "rewrite", "del-agp"]), "load", "reload-kept-object"] + hists[-1][:3]
    for i, h in enumerate(hists):
        rng = rng_for(shard["seed"], "c15hv", shard["index"], i)
        run_history(ctx, scene, h + ["load"], rng, {"kind": "history", "steps": h + ["load"], "seed": shard["seed"], "index": shard["index"], "i": i, "symlink": shard.get("symlink", False), "clock": scene.clockmode})


def run(shard, ctx):
    {"crash": run_crash, "sched": run_sched, "history": run_histories}[shard["kind"]](shard, ctx)


def replay(case, ctx):
    scratch = Path(os.environ.get("VERIF_SHARD_SCRATCH", "."))
    if case["kind"] == "history":
        if case.get("clock") == "dst":
            os.environ["TZ"] = "GMT0BST,M3.5.0/1,M10.5.0/2"
            time.tzset()
        run_history(ctx, Scene(scratch / "hist", symlink=case.get("symlink", False), clockmode=case.get("clock", "logical")), case["steps"], rng_for(case["seed"], "c15hv", case["index"], case["i"]), case)
        return
    rng = rng_for(case["seed"], "c15crash" if case["kind"] in ("crash", "interrupt") else "c15sched", case["index"])
    if case["kind"] in ("crash", "interrupt"):
        data = SMALL if case["size"] == "small" else large_fasta(rng, 800)
        old = SMALL2 if case["size"] == "small" else large_fasta(rng_for(case["seed"], "old"), 700)
        scene = Scene(scratch / "crash")
        if case["scenario"] == "cli-output":
            scene = Scene(scratch / "crash-cli")
            data = setup_cli_output(scene, rng_for(case["seed"], "c15cli", case["index"]))
        else:
            scene.setup(case["scenario"], data, old)
        ref = reference(data)
        sched.FIXED_PID = 4242 if case.get("same_pid") else None
        if case["k"] is not None and case["kind"] == "interrupt":
            sched.run_until_interrupt(scene.fa, case["k"])
        elif case["k"] is not None:
            sched.run_until_crash(scene.fa, case["k"])
        if case.get("then") == "fasta-shortened":
            scene.stamp_caches()
            short = b">" + scene.fa.read_bytes().split(b">")[1]
            scene.write_fasta(short)
            ref = reference(short)
            fresh_check(ctx, scene, ref, f"crash:{case['scenario']}:replay:first-load", case)
        ctx.case()
        fresh_check(ctx, scene, ref, f"crash:{case['scenario']}:replay", case)
    else:
        data = SMALL if case["size"] == "small" else large_fasta(rng, 120)
        scene = Scene(scratch / "sched")
        scene.setup(case["scenario"], data, SMALL2)
        ref = reference(data)
        if case["kind"] == "sched":
            results, trace = sched.run_segments(scene.fa, case["nproc"], [tuple(s) for s in case["segments"]])
        else:
            rr = rng_for(case["seed"], "prio", case["index"], case["r"])
            nproc = rr.choice([2, 2, 3])
            results, trace = sched.run_priority(scene.fa, nproc, rr, switch_prob=rr.choice([0.02, 0.1, 0.3]))
        judge_schedule(ctx, scene, ref, results, trace, f"race:{case['scenario']}:replay", case)


def plan(tier, seed):
    sh = []
    quick = tier == "quick"
    # histories
    if quick:
        sh += [{"kind": "history", "mode": "all", "length": 3, "part": p, "nparts": 3} for p in range(3)]
        sh += [{"kind": "history", "mode": "random", "n": 40}, {"kind": "history", "mode": "random", "n": 40, "symlink": True}]
        sh += [{"kind": "history", "mode": "random", "n": 40, "clock": "future"}, {"kind": "history", "mode": "random", "n": 30, "clock": "subsecond"}]
        sh += [{"kind": "history", "mode": "all", "length": 3, "part": 0, "nparts": 2, "clock": "future"}]
        sh += [{"kind": "history", "mode": "random", "n": 40, "clock": "dst"}]
    else:
        sh += [{"kind": "history", "mode": "all", "length": 4, "part": p, "nparts": 6} for p in range(6)]
        sh += [{"kind": "history", "mode": "random", "n": 400} for _ in range(2)] + [{"kind": "history", "mode": "random", "n": 400, "symlink": True}]
        sh += [{"kind": "history", "mode": "all", "length": 3, "part": 0, "nparts": 1, "symlink": True}]
        sh += [{"kind": "history", "mode": "random", "n": 400, "clock": "future"}, {"kind": "history", "mode": "random", "n": 400, "clock": "subsecond"}]
        sh += [{"kind": "history", "mode": "all", "length": 4, "part": p, "nparts": 3, "clock": "future"} for p in range(3)]
        sh += [{"kind": "history", "mode": "random", "n": 400, "clock": "dst"}, {"kind": "history", "mode": "all", "length": 3, "part": 0, "nparts": 1, "clock": "dst"}]
    # crash points
    # (same_pid: every process of the shard's histories reports one process id)
    sh += [{"kind": "crash", "size": "small", "scenarios": ["cold", "stale", "equal-mtime"], "same_pid": True},
           {"kind": "crash", "size": "small", "scenarios": ["fai-deleted", "agp-deleted", "fresh", "cli-output"]},
           {"kind": "crash", "size": "small", "scenarios": ["fai-deleted", "agp-deleted", "cli-output"], "same_pid": True}]
    if quick:
        sh += [{"kind": "crash", "size": "large", "scenarios": ["stale"], "stride": 9, "same_pid": True}]
    else:
        sh += [{"kind": "crash", "size": "large", "scenarios": [s], "same_pid": s in ("stale", "agp-deleted")} for s in ("cold", "stale", "fai-deleted", "agp-deleted")]
    # interleavings
    for scenario in ("cold", "stale", "fai-deleted", "agp-deleted", "fresh"):
        sh.append({"kind": "sched", "size": "small", "scenario": scenario, "mode": "2p-b1", "random": 40 if quick else 150})
    for p in range(3 if quick else 4):
        sh.append({"kind": "sched", "size": "small", "scenario": "fai-deleted", "mode": "3p-b2-fileops", "k3": [1, 2, 3] if quick else [1, 2, 3, 4, 6], "part": p, "nparts": 3 if quick else 4, "random": 0})
    if not quick:
        for sc in ("agp-deleted", "stale"):
            sh += [{"kind": "sched", "size": "small", "scenario": sc, "mode": "3p-b2-fileops", "k3": [1, 2, 3, 4, 6], "part": p, "nparts": 4, "random": 0} for p in range(4)]
    if quick:
        sh.append({"kind": "sched", "size": "small", "scenario": "stale", "mode": "3p-b1", "random": 0})
        sh.append({"kind": "sched", "size": "small", "scenario": "cold", "mode": "2p-b2", "stride2": 7, "part": 0, "nparts": 6, "random": 0})
        sh.append({"kind": "sched", "size": "large", "scenario": "stale", "mode": "none", "random": 25})
    else:
        for scenario in ("cold", "stale", "agp-deleted"):
            sh.append({"kind": "sched", "size": "small", "scenario": scenario, "mode": "3p-b1", "random": 0})
            sh += [{"kind": "sched", "size": "small", "scenario": scenario, "mode": "2p-b2", "stride2": 1, "part": p, "nparts": 4, "random": 0} for p in range(4)]
        sh += [{"kind": "sched", "size": "large", "scenario": s, "mode": "none", "random": 150} for s in ("cold", "stale")]
    return sh


def gates(c, tier):
    need = {
        "history:ok": 200,
        "history:load:from-cache": 50,
        "history:load:rebuilt": 100,
        "history:equal-mtime-steps": 20,
        "history:crash-loads": 30,
        "history:load-after-edit:correct": 30,
        "history:fasta-via-symlink-shards": 1,
        "history:clock-future-shards": 1,
        "history:clock-subsecond-shards": 1,
        "history:clock-dst-shards": 1,
        "history:reload-kept:loud": 10,
        "crash:runs": 400,
        "crash:cli-output-scenarios": 1,
        "crash:at-raw-file-op": 100,
        "crash:then-fasta-shortened:same-pid": 20,
        "interrupt:runs": 150,
        "sched:runs": 600,
        "sched:reader-overlapped-writer": 20,
        "sched:outcome:loaded-from-cache": 50,
        "sched:outcome:rebuilt": 300,
        "fresh-load:correct": 500,
    }
    return [f"{k}>={v} (got {c.get(k, 0)})" for k, v in need.items() if c.get(k, 0) < v]


def summarize(c, tier):
    return {
        "crash_points_enumerated": c.get("crash:runs", 0),
        "distinct_states_at_crash": sum(v for k, v in c.items() if k.startswith("crash:distinct-states")),
        "schedules_run": c.get("sched:runs", 0),
        "outcomes": {k: v for k, v in c.items() if k.startswith("sched:outcome") or k.startswith("fresh-load") or k.startswith("history:load")},
    }
