"""C09  Tags route sequence to the documented destination assembly.

Workload: G-tag designed taggings with known destinations (single haplotype,
Target mode, two haplotypes, Primary).  Oracle: the output assembly that holds
the core bases of every piece (vf.ref.layout_ref placement map) must be the
designed destination; sequence absent from the map follows the Target /
haplotype-by-name rules.  CLI slice: the same on the written files, checking
the documented file-name <-> assembly mapping.
"""

import os
from pathlib import Path

from vf import workloads
from vf.core import rng_for, rows_with_pos
from vf.ref import agp_ref, layout_ref, tpf_ref

ID = "C09"
LEVEL = "exploration"
RULE = (
    "case = designed tagging (G-tag): painted scaffolds with 1-4 pieces (localised, Unloc, embedded Haplotig / "
    "Contaminant / FalseDuplicate at first or later position, optional name tag), unpainted scaffolds (whole or cut "
    "across Pretext scaffolds, optionally tagged), Target mode on/off with the first Target anywhere, one haplotype or "
    "two (HAPn_SCAFFOLD_k input names, haplotype tags in three spellings or derived from names only, Singleton, "
    "Primary), x input assemblies x texel sizes. Every piece with contig bases in its core is a routed observation. "
    "Non-trivial = design with at least one tagged piece or two haplotypes; distinct = distinct (input, pretext, t)."
)
ASSUMPTIONS = [
    "only consistent taggings (no piece both Haplotig and Contaminant; no Haplotig/FalseDuplicate piece in a non-Target scaffold in Target mode; one haplotype per scaffold)",
    "haplotype-by-name applies to declared haplotypes; generated input names avoid the accidental X_..._<n> pattern otherwise",
    "destination is judged on core bases (more than 3*(1+floor t) from the piece ends), as in C02",
]

CLASS_OF_FILE = [
    (".additional_haplotigs.curated.", "Haplotig"),
    (".all_haplotigs.curated.", "all_haplotigs"),
    (".haplotigs.", "Haplotig"),
    (".contaminants.", "Contaminant"),
    (".falseduplicates.", "FalseDuplicate"),
    (".primary.curated.", "curated"),
]


def expected_keys(expect, design):
    """Set of acceptable (lower-cased) assembly keys for an expectation."""
    if expect in ("Haplotig", "Contaminant", "FalseDuplicate"):
        return {expect.lower()}
    if expect in (None, "none"):
        return {"none"}
    if design.get("haps"):
        h = design["haps"]
        idx = 0 if expect == "hap1" else 1
        keys = {h[idx].lower()}
        if design.get("primary") and idx == 0:
            keys = {"primary"}
        return keys
    return {"none"}


def core_destinations(case, om):
    """-> list of (piece, set of (asm key, scaffold name)) for pieces whose core holds contig bases."""
    by_name = {s[0]: s[1] for s in case["input"]}
    res = []
    for pc in case["pieces"]:
        core = layout_ref.piece_core(pc, case["t"])
        if core is None:
            continue
        pts = layout_ref.core_points(by_name[pc["s"]], core[0], core[1])
        if not pts:
            continue
        dest = set()
        for x, x1, x2, r in pts:
            loc = om.locate(r[1], layout_ref.contig_pos(x1, x2, r, x))
            if loc is None:
                dest.add(("<missing>", None))
            else:
                key, sname, _ = om.scaffolds[loc[0]]
                dest.add((key, sname))
        res.append((pc, dest))
    return res


def absent_contigs(case):
    """Input contigs of scaffolds that no bait names at all."""
    named = {pc["s"] for pc in case["pieces"]}
    out = []
    for s in case["input"]:
        if s[0] not in named:
            for r in s[1]:
                if r[0] == "F":
                    out.append((s[0], r))
    # contigs inside the core of a piece that was left out of the map (its sister pieces are in it)
    out += [(sn, r) for sn, r in (case.get("design") or {}).get("absent_rows", [])]
    return out


def reused_objects_leg(case, outcome, ctx, desc, stripped):
    """The objects of one session are used again: routing depends on the map given, not on what an earlier
    export left behind in the input assembly or in the Pretext scaffolds."""
    from tola.assembly.assembly import Assembly
    from vf.core import build_row, build_scaffolds

    t = case["t"]
    plain2 = workloads.without_set_aside_tags(case["pretext"])
    # (a) the curator takes the set-aside tags off again and exports once more, the indexed input still in memory
    pa, ia = workloads.build_inputs(case)
    first = workloads.remap_objects(case, pa, ia)
    again = workloads.remap_objects(case, Assembly("p", scaffolds=build_scaffolds(plain2), bp_per_texel=t), ia)
    _, ia_fresh = workloads.build_inputs(case)
    ref2 = workloads.remap_objects(case, Assembly("p", scaffolds=build_scaffolds(plain2), bp_per_texel=t), ia_fresh)
    ctx.count("reused:second-export-with-set-aside-tags-removed")
    if first[0] == "ok" and again != ref2:
        ctx.violation("routing-depends-on-an-earlier-export-from-the-same-input-object",
                      f"second export (set-aside tags removed) on the input object used before: {str(again)[:600]}\non a fresh one: {str(ref2)[:600]}\n{desc}", stripped)
        return False
    # (b) the Pretext scaffolds are first built and shown (their tags listed) without any tag; the tags are
    # then put on the pieces in place; the export follows the tags the pieces have now
    bare = [[n, [r if r[0] == "G" else [*r[:5], []] for r in rows]] for n, rows in case["pretext"]]
    pa_b = Assembly("p", scaffolds=build_scaffolds(bare), bp_per_texel=t)
    for sc_ in pa_b.scaffolds:
        sc_.fragment_tags()
    for sc_, (_, rows) in zip(pa_b.scaffolds, case["pretext"]):
        for k_, r in enumerate(rows):
            if r[0] == "F" and r[5]:
                sc_.rows[k_] = build_row(r)
    _, ia_b = workloads.build_inputs(case)
    got_b = workloads.remap_objects(case, pa_b, ia_b)
    ctx.count("reused:pretext-scaffolds-tagged-after-their-tags-were-listed")
    if got_b != ("ok", outcome["out"]):
        ctx.violation("routing-follows-tags-listed-before-the-pieces-were-tagged",
                      f"pieces tagged in place after fragment_tags() was called: {str(got_b)[:600]}\nfresh objects: {str(outcome['out'])[:600]}\n{desc}", stripped)
        return False
    return True


def oracle(case, outcome, ctx):
    ctx.case()
    design = case["design"]
    stripped = {k: v for k, v in case.items() if k != "labels"}
    desc = f"t={case['t']} target_mode={design.get('target_mode')} haps={design.get('haps')} primary={design.get('primary')}\ninput={case['input']}\npretext={case['pretext']}"
    if not outcome["ok"]:
        e = outcome["exc"]
        if "tag:haplotig-slivers" in case["labels"] or case["gen"] == "tagdrop":
            ctx.count(f"sliver-or-dropped-piece-map-error:{e['type']}@{e['fn']}")  # hostile extras: an error is an allowed outcome
            return
        ctx.violation(f"designed-tagging-raised-{e['type']}@{e['fn']}", f"{e['msg'][:500]}\n{desc}", stripped)
        return
    om = layout_ref.OutMap(outcome["out"])
    if design.get("haps") or any(pc["kind"] in ("htig", "cont", "fdup") for pc in case["pieces"]) or design.get("target_mode"):
        ctx.nontrivial([case["input"], case["pretext"], case["t"]])
    if case.get("id") and case["id"][2] % 8 == 3 and case["gen"] in ("tag", "tag2") and not case.get("no_join_gap"):
        if not reused_objects_leg(case, outcome, ctx, desc, stripped):
            return
    bad = 0
    for pc, dest in core_destinations(case, om):
        want = expected_keys(pc["expect"], design)
        got = {str(k).lower() for k, _ in dest}
        ctx.count(f"routed:{pc['kind']}:{'painted' if pc['painted'] else 'unpainted'}:{'first' if pc['ord'] == 0 else 'later'}")
        if pc["expect"] == "Contaminant" and pc["kind"] != "cont":
            ctx.count("routed:contaminant-by-target-rule")
        if got != want and not got <= want:
            bad += 1
            if bad <= 2:
                where = "painted" if pc["painted"] else "unpainted"
                pos = "first" if pc["ord"] == 0 else "later"
                sig = f"misrouted:{pc['kind']}-piece-in-{where}-scaffold-{pos}-position:expected-{sorted(want)[0]}-got-{sorted(got)[0]}"
                ctx.violation(
                    sig,
                    f"piece {pc['s']}:{pc['start']}-{pc['end']} tags={pc['tags']} (kind {pc['kind']}) of Pretext scaffold #{pc['pt'] + 1}: core bases are in {sorted(map(str, dest))}, expected assembly {sorted(want)}\n{desc}\noutput={outcome['out']}",
                    stripped,
                )
    # sequence absent from the map
    for sname, r in absent_contigs(case):
        loc = om.locate(r[1], r[2])
        if loc is None:
            continue  # C01's business
        key = str(om.scaffolds[loc[0]][0]).lower()
        if design.get("target_mode"):
            want = {"contaminant"}
            ctx.count("absent:target-mode")
        elif design.get("haps"):
            h1, h2 = design.get("hap_prefixes", ["HAP1", "HAP2"])
            which = "hap1" if sname.startswith(h1 + "_") else "hap2" if sname.startswith(h2 + "_") else "none"
            want = expected_keys(which, design)
            if which == "none":
                ctx.count("absent:unprefixed-in-haplotype-map")
            ctx.count("absent:haplotype-by-name")
        else:
            want = {"none"}
            ctx.count("absent:plain")
        if key not in want:
            bad += 1
            ctx.violation(
                f"absent-sequence-misrouted:expected-{sorted(want)[0]}-got-{key}",
                f"input scaffold {sname} is absent from the map; its contig {r[1]}:{r[2]}-{r[3]} is in assembly {key}, expected {sorted(want)}\n{desc}",
                stripped,
            )
    if not bad:
        ctx.count(f"routing-ok:{case['gen']}")
        if len(ctx.samples) < 2 and len(outcome["out"]) >= 3:
            ctx.sample({"t": case["t"], "pretext": case["pretext"][:5], "assemblies": {str(k): [s[0] for s in scs][:6] for k, scs in outcome["out"]}})


def check_cli(cr, ctx):
    from vf import cli_runs

    ctx.case()
    fmt = "tpf" if cr["assembly_file"].suffix == ".tpf" else "agp"
    res = cli_runs.run_pretext_to_asm(cr, out_name=f"out.{fmt}")
    case = cli_runs.case_of(cr)
    if res["exit_code"] != 0:
        ctx.violation(f"cli-designed-tagging-exit-{res['exit_code']}", f"stderr={res['stderr'][-600:]}", case)
        return
    design = cr["design"]
    out = []
    for p in sorted(cr["dir"].iterdir()):
        n = p.name
        if n.startswith("out.") and n.endswith("." + fmt):
            scs = (tpf_ref if fmt == "tpf" else agp_ref).parse(p.read_text())[0]["scaffolds"]
            out.append([n, scs])
    om = layout_ref.OutMap(out)
    ctx.nontrivial(case["files"])
    fake = {"input": cr["input"], "pieces": cr["pieces"], "t": cr["t"]}
    bad = 0
    for pc, dest in core_destinations(fake, om):
        files = {k for k, _ in dest}
        want = pc["expect"]
        if want == "none" and design.get("haps"):
            # a scaffold of no haplotype in a multi-haplotype map: which FILE it lands in is not documented
            ctx.count("cli:no-haplotype-piece-in-haplotype-map-not-judged")
            continue
        for f in files:
            cls = next((c for pat, c in CLASS_OF_FILE if pat in f), "?")
            ok = False
            if want in ("Haplotig", "Contaminant", "FalseDuplicate"):
                ok = cls == want
            elif design.get("haps"):
                hap = design["haps"][0 if want == "hap1" else 1].lower()
                if design.get("primary"):
                    ok = (cls == "curated" and ".hap" not in f) if want == "hap1" else cls == "all_haplotigs"
                else:
                    ok = cls == "curated" and f".{hap}." in f
            else:
                ok = cls == "curated"
            ctx.count(f"cli-routed:{cls}")
            if not ok:
                bad += 1
                ctx.violation(f"cli-file-misrouted:{pc['kind']}:expected-{want}-got-{cls}", f"piece {pc['s']}:{pc['start']}-{pc['end']} tags={pc['tags']} is in file {f}", case)
    if not bad:
        ctx.count("cli:ok")


def run_cli(shard, ctx):
    from vf import cli_runs

    scratch = Path(os.environ.get("VERIF_SHARD_SCRATCH", "."))
    for i in range(shard["n"]):
        rng = rng_for(shard["seed"], "c09cli", shard["index"], i)
        if i % 6 == 5:
            # Primary mode AND scaffolds that belong to no haplotype (MT, unplaced): two features at once
            cr = cli_runs.text_case(rng, scratch / f"c{i}", fmt=rng.choice(["tpf", "agp"]), tagged=True, two_hap=True, unprefixed=True, primary=True)
            if "tag:unprefixed-scaffold-in-haplotype-map" in cr["labels"]:
                ctx.count("cli:primary-mode-with-no-haplotype-scaffolds")
        else:
            cr = cli_runs.text_case(rng, scratch / f"c{i}", fmt=rng.choice(["tpf", "agp"]), tagged=True, two_hap=(i % 3 == 2))
        try:
            check_cli(cr, ctx)
        finally:
            cli_runs.cleanup(cr)


def run(shard, ctx):
    if shard["kind"] == "cli":
        run_cli(shard, ctx)
    else:
        workloads.run_remap_batch(shard, ctx, kinds=tuple(shard["kinds"]), oracle=oracle)


def replay(case, ctx):
    if case["kind"] == "cli":
        from vf import cli_runs

        check_cli(cli_runs.restore_case(case, Path(os.environ.get("VERIF_SHARD_SCRATCH", ".")) / "replay"), ctx)
    else:
        oracle(case, workloads.run_case(case), ctx)


def plan(tier, seed):
    n, per = (12, 2000) if tier == "quick" else (15, 25000)
    sh = [{"kind": "mem", "kinds": [["tag"], ["tag", "tag2"], ["tag", "tagdrop"], ["tag", "tag2"]][k % 4], "n": per} for k in range(n)]
    nc, perc = (4, 60) if tier == "quick" else (16, 100)
    return sh + [{"kind": "cli", "n": perc} for _ in range(nc)]


def gates(c, tier):
    need = {
        "routing-ok:tag": 1500,
        "reused:second-export-with-set-aside-tags-removed": 500,
        "reused:pretext-scaffolds-tagged-after-their-tags-were-listed": 500,
        "label:tag:second-primary-tag-on-scaffold-of-other-haplotype": 50,
        "routing-ok:tag2": 500,
        "routed:htig:painted:later": 50,
        "routed:cont:painted:first": 30,
        "routed:cont:painted:later": 50,
        "routed:fdup:painted:later": 30,
        "routed:cont:unpainted:first": 100,
        "routed:contaminant-by-target-rule": 100,
        "routed:unloc:painted:later": 100,
        "absent:target-mode": 20,
        "label:tag:piece-dropped-from-map": 300,
        "absent:haplotype-by-name": 20,
        "absent:unprefixed-in-haplotype-map": 10,
        "label:tag:unprefixed-scaffold-in-haplotype-map": 100,
        "label:tag:haplotype-names-without-digit": 100,
        "absent:plain": 50,
        "label:tag:primary": 50,
        "label:tag:haplotype-from-names-only": 50,
        "cli:ok": 15,
        "cli:primary-mode-with-no-haplotype-scaffolds": 3,
    }
    return [f"{k}>={v} (got {c.get(k, 0)})" for k, v in need.items() if c.get(k, 0) < v]
