"""C06  Every AGP the tools write is coordinate-valid.

Monitor: post-condition on the real format_agp wherever it is called (a tee on
the file argument captures the text of that call) validated by the independent
vf.ref.agp_ref.validate.  Workloads: every assembly produced by remapping
generated maps, the .agp cache beside indexed FASTA files, asm-format
conversions, and pretext-to-asm runs with AGP and FASTA output.
"""

import io
import os
from pathlib import Path

from vf import workloads
from vf.core import dump_scaffold, rng_for, scaffold_len
from vf.gen import fasta as gfa
from vf.gen import text as gtext
from vf.mon import contracts
from vf.ref import agp_ref, fasta_ref

ID = "C06"
LEVEL = "exploration"
RULE = (
    "case = one AGP text written by a format_agp call: (a) every output assembly of remapping seeded PretextView-model, "
    "designed-tag, two-haplotype and hostile maps; (b) the .agp cache of generated FASTA files (N-runs, terminal gaps, "
    "CRLF); (c) asm-format conversions of generated assemblies; (d) pretext-to-asm runs writing AGP, and FASTA with "
    "its AGP companion (object length = record length). Non-trivial = text with >=2 rows; distinct = distinct texts."
)
ASSUMPTIONS = ["gap rows have length >= 1 (a zero-length component cannot be expressed in AGP)"]


class TeeText:
    def __init__(self, inner):
        self.inner = inner
        self.buf = io.StringIO()

    def write(self, s):
        self.buf.write(s)
        return self.inner.write(s)

    def __getattr__(self, k):
        return getattr(self.inner, k)


def validate_text(ctx, text, plain_scaffolds, real_lengths, origin, case=None):
    ctx.case()
    ctx.count(f"{origin}:agp-texts")
    lengths = {s[0]: scaffold_len(s) for s in plain_scaffolds}
    if len(lengths) != len(plain_scaffolds):
        ctx.count("skipped:duplicate-object-names")  # naming is C10's business
        return
    nrows = sum(len(s[1]) for s in plain_scaffolds)
    if nrows >= 2:
        ctx.nontrivial(text)
    if any(r[0] == "G" and r[1] < 1 for s in plain_scaffolds for r in s[1]):
        ctx.count("skipped:zero-length-gap")
        return
    probs, ends = agp_ref.validate(text, lengths)
    if real_lengths and real_lengths != lengths:
        probs.append(("scaffold-length-property-differs-from-rows", f"{real_lengths} vs {lengths}"))
    for sig, msg in probs[:3]:
        ctx.violation(sig, f"{origin}: {msg}\ntext:\n{text[:800]}", case or {"kind": "scaffolds", "scaffolds": plain_scaffolds})
    if not probs:
        ctx.count("agp-valid")
        ctx.count("agp-valid-rows", nrows)
        if any(r[0] == "G" for s in plain_scaffolds for r in s[1]):
            ctx.count("agp-valid:with-gaps")
        if len(ctx.samples) < 2 and 3 <= nrows <= 12:
            ctx.sample({"origin": origin, "agp": text})


def attach(ctx, origin_ref):
    import tola.assembly.format as fmt_mod
    import tola.assembly.scripts.asm_format  # noqa: F401  (so that its from-import is rebound)
    import tola.assembly.scripts.pretext_to_asm  # noqa: F401
    import tola.fasta.index  # noqa: F401

    orig = fmt_mod.format_agp
    if getattr(orig, "_vf_c06", False):
        return

    def format_agp(asm, file):
        tee = TeeText(file)
        res = orig(asm, tee)
        try:
            scs = [dump_scaffold(s) for s in asm.scaffolds]
            real_lengths = {s.name: s.length for s in asm.scaffolds}
            validate_text(ctx, tee.buf.getvalue(), scs, real_lengths, origin_ref["origin"])
        except Exception as e:  # noqa: BLE001 - monitor failure must not pass silently
            ctx.violation("monitor-error", f"{type(e).__name__}: {e}", None)
        return res

    format_agp._vf_c06 = True
    fmt_mod.format_agp = format_agp
    import sys

    for m in list(sys.modules.values()):
        d = getattr(m, "__dict__", None)
        if d and d.get("format_agp") is orig:
            d["format_agp"] = format_agp
    contracts.EVALS["C06.format_agp"] += 0


def run_remap(shard, ctx, origin_ref):
    from tola.assembly.format import format_agp

    def oracle(case, outcome, ctx_):
        if not outcome["ok"]:
            return
        for key, asm in outcome["out_obj"].items():
            origin_ref["origin"] = f"remap:{case['gen']}"
            format_agp(asm, io.StringIO())
        # scaffolds whose length was already asked for, then joined without a gap (the public
        # append_scaffold), then written: the object still ends at the scaffold's length
        if len(case["input"]) >= 2 and hash(str(case.get("id"))) % 4 == 0:
            from tola.assembly.assembly import Assembly

            from vf.core import build_scaffolds

            objs = build_scaffolds(case["input"])
            _ = [o.length for o in objs]
            objs[0].append_scaffold(objs[1])
            _ = objs[0].length
            if len(objs) > 2:
                objs[0].append_scaffold(objs[2])
            origin_ref["origin"] = "edited-scaffolds"
            format_agp(Assembly("edited", scaffolds=[objs[0], *objs[3:]]), io.StringIO())

    workloads.run_remap_batch(shard, ctx, kinds=tuple(shard["kinds"]), oracle=oracle, opts={"terminal_gaps": True})


def run_fasta(shard, ctx, origin_ref):
    from tola.fasta.index import FastaIndex

    scratch = Path(os.environ.get("VERIF_SHARD_SCRATCH", "."))
    origin_ref["origin"] = "fasta-cache"
    for i in range(shard["n"]):
        rng = rng_for(shard["seed"], "c06fa", shard["index"], i)
        data, meta = gfa.gen_fasta(rng)
        p = scratch / "c.fa"
        for q in (p, Path(str(p) + ".fai"), Path(str(p) + ".agp")):
            if q.exists():
                q.unlink()
        p.write_bytes(data)
        fi = FastaIndex(p, rng.choice([1, 7, 60, 250000]))
        try:
            fi.auto_load()
        except Exception as e:  # noqa: BLE001 - C04's business
            ctx.count(f"fasta:index-raised:{type(e).__name__}")
            continue
        recs = fasta_ref.parse(data)
        txt = Path(str(p) + ".agp").read_text()
        probs, ends = agp_ref.validate(txt, {r["name"]: len(r["seq"]) for r in recs})
        ctx.count("fasta:cache-files")
        for sig, msg in probs[:2]:
            ctx.violation(f"cache-file:{sig}", f"{msg}\n{txt[:500]}", {"kind": "scaffolds", "scaffolds": []})
        if i % 3 == 0:
            # the FASTA grows (another version, later mtime) and the SAME index object is asked to load again:
            # the .agp cache then describes the file as it is now
            data2, _ = gfa.gen_fasta(rng_for(shard["seed"], "c06fa2", shard["index"], i), nrec=rng.randint(2, 6))
            st = p.stat()
            p.write_bytes(data2)
            newer = max(st.st_mtime, Path(str(p) + ".agp").stat().st_mtime, Path(str(p) + ".fai").stat().st_mtime) + 5
            os.utime(p, (newer, newer))
            try:
                fi.auto_load()
            except Exception as e:  # noqa: BLE001
                ctx.count(f"fasta:second-load-raised:{type(e).__name__}")
                continue
            recs2 = fasta_ref.parse(data2)
            txt2 = Path(str(p) + ".agp").read_text()
            probs2, _ = agp_ref.validate(txt2, {r["name"]: len(r["seq"]) for r in recs2})
            ctx.count("fasta:cache-files-after-second-load-of-one-object")
            for sig, msg in probs2[:2]:
                ctx.violation(f"cache-file-after-second-load:{sig}", f"{msg}\n{txt2[:500]}", {"kind": "scaffolds", "scaffolds": []})


def fault_leg(ctx, cr, rng):
    """Injected fault: the FASTA writer fails (as on a full disk) part-way through an assembly.
    Whatever AGP files exist afterwards must still describe the FASTA written beside them."""
    import errno

    from tola.fasta.stream import FastaStream
    from vf import cli_runs

    cli_runs.clear_outputs(cr)
    orig = FastaStream.write_scaffold
    state = {"n": 0, "fail_at": rng.randint(0, 3)}

    def failing(self, scaffold):
        if state["n"] == state["fail_at"]:
            self.out.write(f">{scaffold.name}\nACGT".encode())
            state["n"] += 1
            raise OSError(errno.ENOSPC, "No space left on device (injected)")
        state["n"] += 1
        return orig(self, scaffold)

    FastaStream.write_scaffold = failing
    try:
        res = cli_runs.run_pretext_to_asm(cr, out_name="out.fa")
    finally:
        FastaStream.write_scaffold = orig
    ctx.case()
    # as at process exit: files the failed run left open are flushed when their last reference goes
    import gc

    import io

    # (flush while the failed run's frames - and so its file objects - are still alive: once the
    #  traceback cycle is collected, finalisation order is arbitrary and buffered data may be lost)
    for o in gc.get_objects():
        try:
            if isinstance(o, (io.TextIOWrapper, io.BufferedWriter)) and not o.closed and str(getattr(o, "name", "")).startswith(str(cr["dir"])):
                o.flush()
        except Exception:  # noqa: BLE001
            pass
    code = res["exit_code"]
    res = {"exit_code": code}
    gc.collect()
    if state["n"] <= state["fail_at"]:
        ctx.count("fault:not-reached")
        return
    ctx.count("fault:fasta-write-failed")
    if res["exit_code"] == 0:
        ctx.violation("fault:write-error-ignored", "FASTA write failed but the run exited 0", cli_runs.case_of(cr))
        return
    for p in sorted(cr["dir"].glob("out.*.agp")):
        fa = p.with_suffix(".fa")
        if not fa.exists():
            continue
        for h in __import__("logging").root.handlers:
            h.flush()
        recs = {n: len(seq) for n, seq, _ in fasta_ref.split_records(fa.read_bytes())}
        _, ends = agp_ref.validate(p.read_text())
        bad = {n: (e, recs.get(n)) for n, e in ends.items() if recs.get(n) != e}
        if bad:
            ctx.violation("fault:agp-describes-fasta-records-that-were-not-written", f"{p.name}: object end vs record length {dict(list(bad.items())[:3])}", cli_runs.case_of(cr))
            return
    ctx.count("fault:ok")


def run_cli(shard, ctx, origin_ref):
    from vf import cli_runs

    scratch = Path(os.environ.get("VERIF_SHARD_SCRATCH", "."))
    for i in range(shard["n"]):
        rng = rng_for(shard["seed"], "c06cli", shard["index"], i)
        m = i % 3
        if m == 0:
            origin_ref["origin"] = "asm-format"
            plain = gtext.gen_assembly(rng, tpf_ok=True)
            if any(a[0] == b[0] for a, b in zip(plain["scaffolds"], plain["scaffolds"][1:])):
                continue
            (scratch / "x.tpf").write_text(__import__("vf.ref.tpf_ref", fromlist=["format"]).format(plain))
            # AGP written to STDOUT while the overlap QC reports (to STDERR) about a duplicated fragment
            dup = {"header": [], "scaffolds": [[n, list(rows)] for n, rows in plain["scaffolds"]]}
            fr = next((r_ for _, rows in dup["scaffolds"] for r_ in rows if r_[0] == "F"), None)
            if fr is not None:
                dup["scaffolds"][-1][1].append(list(fr))
                (scratch / "q.tpf").write_text(__import__("vf.ref.tpf_ref", fromlist=["format"]).format(dup))
                rq = cli_runs.run_asm_format([scratch / "q.tpf", "--qc-overlaps"])
                if rq["exit_code"] == 0:
                    probs, _ = agp_ref.validate(rq["stdout"], {s_[0]: scaffold_len(s_) for s_ in dup["scaffolds"]})
                    ctx.count("cli:asm-format-stdout-with-qc")
                    for sig, msg in probs[:2]:
                        ctx.violation(f"asm-format-stdout:{sig}", f"{msg}\n{rq['stdout'][:400]}", {"kind": "scaffolds", "scaffolds": dup["scaffolds"]})
            r = cli_runs.run_asm_format([scratch / "x.tpf", "-o", scratch / "x.out.agp"])
            if r["exit_code"] == 0:
                probs, _ = agp_ref.validate((scratch / "x.out.agp").read_text(), {s[0]: scaffold_len(s) for s in plain["scaffolds"]})
                ctx.count("cli:asm-format-files")
                for sig, msg in probs[:2]:
                    ctx.violation(f"asm-format-file:{sig}", msg, {"kind": "scaffolds", "scaffolds": plain["scaffolds"]})
            continue
        cr = cli_runs.fasta_case(rng, scratch / f"c{i}", tagged=rng.random() < 0.5) if m == 1 else cli_runs.text_case(rng, scratch / f"c{i}", fmt="tpf", tagged=True)
        try:
            origin_ref["origin"] = "pretext-to-asm"
            from vf.props.c17 import patched_buffer

            bs = rng.choice([3, 16, 60, 250000]) if m == 1 else 250000
            with patched_buffer(bs):  # gaps and fragments longer than the stream buffer
                res = cli_runs.run_pretext_to_asm(cr, out_name="out.fa" if m == 1 else "out.agp")
            if bs < 250000:
                ctx.count("cli:small-stream-buffer")
            if res["exit_code"] != 0:
                ctx.count("cli:error-exit")
                continue
            if m == 1 and i % 2 == 1:
                fault_leg(ctx, cr, rng)
                continue
            if m == 1 and i % 4 == 0:
                # the directory already holds AGP files of an earlier, different curation under the same names
                # (an `-o out.agp` run): the second run (default --clobber) leaves no FASTA beside an older AGP
                cli_runs.run_pretext_to_asm(cr, out_name="out.agp")
                old = sorted(cr["dir"].glob("out.*.agp"))
                for p in old:
                    lines = p.read_text().splitlines(keepends=True)
                    p.write_text("".join(lines[: max(1, len(lines) // 2)]))
                    t_old = p.stat().st_mtime - 3600
                    os.utime(p, (t_old, t_old))
                for p in cr["dir"].glob("out.*.fa"):
                    p.unlink()
                with patched_buffer(bs):
                    res = cli_runs.run_pretext_to_asm(cr, out_name="out.fa")
                if res["exit_code"] != 0:
                    ctx.violation("rerun-over-older-agp-files-failed", f"exit {res['exit_code']}: {res.get('stderr', '')[-300:]}", cli_runs.case_of(cr))
                    continue
                ctx.count("cli:rerun-over-older-agp-files")
            for p in sorted(cr["dir"].glob("out.*.agp")):
                txt = p.read_text()
                lengths = None
                fa = p.with_suffix(".fa")
                if fa.exists():
                    lengths = {n: len(seq) for n, seq, _ in fasta_ref.split_records(fa.read_bytes())}
                    ctx.count("cli:agp-with-fasta")
                probs, ends_ = agp_ref.validate(txt, lengths)
                if lengths is not None and set(ends_) != set(lengths):
                    # every record of the FASTA is an object of the AGP written with it (and the other way round)
                    odd = sorted(set(ends_) ^ set(lengths))[:5]
                    probs = [*probs, ("objects-differ-from-fasta-records", f"objects and records differ: {odd}")]
                ctx.count("cli:agp-files")
                for sig, msg in probs[:2]:
                    ctx.violation(f"written-file:{sig}", f"{p.name}: {msg}\n{txt[:500]}", cli_runs.case_of(cr))
        finally:
            cli_runs.cleanup(cr)


def run(shard, ctx):
    origin_ref = {"origin": shard["kind"]}
    attach(ctx, origin_ref)
    {"remap": run_remap, "fasta": run_fasta, "cli": run_cli}[shard["kind"]](shard, ctx, origin_ref)


def replay(case, ctx):
    from tola.assembly.assembly import Assembly
    from tola.assembly.format import format_agp

    from vf.core import build_scaffolds

    origin_ref = {"origin": "replay"}
    attach(ctx, origin_ref)
    if case.get("kind") == "scaffolds":
        format_agp(Assembly("a", scaffolds=build_scaffolds(case["scaffolds"])), io.StringIO())
    elif case.get("kind") == "cli":
        from vf import cli_runs

        cr = cli_runs.restore_case(case, Path(os.environ.get("VERIF_SHARD_SCRATCH", ".")) / "replay")
        cli_runs.run_pretext_to_asm(cr, out_name="out.fa" if cr["fasta_bytes"] else "out.agp")


def plan(tier, seed):
    n, per = (9, 2000) if tier == "quick" else (10, 30000)
    sh = [{"kind": "remap", "kinds": [["pv", "tag"], ["hostile", "tag2", "pv"]][k % 2], "n": per} for k in range(n)]
    nf, perf = (3, 1500) if tier == "quick" else (3, 20000)
    sh += [{"kind": "fasta", "n": perf} for _ in range(nf)]
    nc, perc = (4, 90) if tier == "quick" else (3, 600)
    sh += [{"kind": "cli", "n": perc} for _ in range(nc)]
    return sh


def gates(c, tier):
    need = {
        "cli:rerun-over-older-agp-files": 5,
        "fasta:cache-files-after-second-load-of-one-object": 300,
        "agp-valid": 4000,
        "agp-valid:with-gaps": 2000,
        "remap:pv:agp-texts": 500,
        "remap:tag:agp-texts": 500,
        "remap:hostile:agp-texts": 100,
        "edited-scaffolds:agp-texts": 500,
        "fasta-cache:agp-texts": 800,
        "fasta:cache-files": 800,
        "asm-format:agp-texts": 10,
        "pretext-to-asm:agp-texts": 50,
        "cli:agp-with-fasta": 10,
        "cli:small-stream-buffer": 10,
        "cli:asm-format-stdout-with-qc": 10,
        "fault:fasta-write-failed": 5,
    }
    return [f"{k}>={v} (got {c.get(k, 0)})" for k, v in need.items() if c.get(k, 0) < v]
