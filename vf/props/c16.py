"""C16  --no-clobber never alters an existing file.

Monitors: sys.addaudithook (open / rename / remove / truncate on pre-existing
output paths) while the real CLI runs in process; after the run: exit status,
error text, bytes + inode + mtime_ns of every pre-existing file.  Thorough
tier adds the same rule on syscalls of the CLI under strace.  --clobber leg:
every output completely rewritten (equals the reference run).
"""

import io
import itertools
import os
import re
import shutil
import subprocess
import sys
import time
import zlib
from pathlib import Path

from vf import env
from vf.core import rng_for

ID = "C16"
LEVEL = "exploration"
RULE = (
    "case = (generated input + Pretext map, output format FASTA|AGP|TPF, --write-log on/off, single- or multi-assembly "
    "design, subset S of the run's output files pre-created with sentinel bytes): a reference run in the empty "
    "directory fixes the output file set; every non-empty subset when there are <=6 files, else every singleton, the "
    "full set and sampled subsets; run with --no-clobber under the audit hook, then with --clobber. Thorough adds "
    "strace on the real console entry point. Non-trivial = subset leaves at least one output file absent or the set "
    "has >=2 files; distinct = distinct (inputs, format, flags, subset)."
)
ASSUMPTIONS = [
    "the .fai/.agp cache beside a FASTA input is not an output file of the run (it is pre-built by the reference run)",
    "'completely rewritten' under --clobber is judged by byte equality with the reference run's files",
]

AUDIT = {"on": False, "events": []}
_HOOKED = []


COMPETITOR = b"written by a competing process just before the open\n" * 50


def _hook(event, args):
    if not AUDIT["on"]:
        return
    if event == "open":
        path, mode, flags = args
        if isinstance(path, (str, bytes, os.PathLike)):
            p = os.fsdecode(path)
            AUDIT["events"].append(("open", p, mode, flags))
            inj = AUDIT.get("inject")
            if inj and isinstance(flags, int) and (flags & os.O_CREAT) and os.path.realpath(p) in inj and not os.path.lexists(p):
                # fault injection: a competitor creates the file between the program's check and its open
                AUDIT["on"] = False
                try:
                    with open(p, "wb") as fh:
                        fh.write(COMPETITOR)
                    inj.discard(os.path.realpath(p))
                    AUDIT.setdefault("injected", []).append(p)
                finally:
                    AUDIT["on"] = True
    elif event in ("os.rename", "os.remove", "os.truncate", "os.rmdir", "shutil.move", "shutil.copyfile"):
        AUDIT["events"].append((event, *[os.fsdecode(a) if isinstance(a, (str, bytes, os.PathLike)) else a for a in args]))


def install_hook():
    if not _HOOKED:
        sys.addaudithook(_hook)
        _HOOKED.append(True)


WRITE_FLAGS = os.O_WRONLY | os.O_RDWR | os.O_TRUNC | os.O_APPEND | os.O_CREAT


def audit_problems(pre_existing):
    probs = []
    pre = {os.path.realpath(p) for p in pre_existing}
    for ev in AUDIT["events"]:
        if ev[0] == "open":
            _, path, mode, flags = ev
            rp = os.path.realpath(path)
            if rp in pre and isinstance(flags, int) and (flags & WRITE_FLAGS) and not (flags & os.O_EXCL):
                probs.append(("opened-existing-file-for-writing", f"open({path!r}, mode={mode!r}, flags={flags:#o})"))
        else:
            for a in ev[1:]:
                if isinstance(a, str) and os.path.realpath(a) in pre:
                    probs.append((f"{ev[0].replace('.', '-')}-on-existing-file", f"{ev}"))
    return probs


SENTINEL = b"SENTINEL pre-existing content that must not change\n" * 400


def outputs_of(cr):
    from vf.cli_runs import INPUT_PREFIXES

    return sorted(p.name for p in cr["dir"].iterdir() if p.is_file() and not p.name.startswith(INPUT_PREFIXES))


def check_case(ctx, cr, out_name, write_log, rng, tier, max_subsets):
    from vf import cli_runs

    extra = ["--write-log" if write_log else "--no-write-log"]
    cli_runs.clear_outputs(cr)
    ref = cli_runs.run_pretext_to_asm(cr, out_name, extra)
    base_case = cli_runs.case_of(cr, {"out_name": out_name, "write_log": write_log})
    if ref["exit_code"] != 0:
        ctx.count("reference-run-failed")
        return
    files = outputs_of(cr)
    ref_bytes = {n: (cr["dir"] / n).read_bytes() for n in files}
    ctx.count(f"file-sets:{len(files)}-files")
    ctx.count("format:" + out_name.rsplit(".", 1)[1])
    ctx.count("log:" + ("on" if write_log else "off"))
    nasm = sum(1 for n in files if n.endswith(out_name.rsplit(".", 1)[1]) and not n.endswith(".csv"))
    ctx.count("assemblies:" + ("multi" if nasm > 1 else "single"))
    if len(files) <= 6:
        subsets = [list(c) for k in range(1, len(files) + 1) for c in itertools.combinations(files, k)]
        ctx.count("file-sets:all-subsets-enumerated")
    else:
        subsets = [[f] for f in files] + [list(files)]
        while len(subsets) < max_subsets:
            subsets.append(sorted(rng.sample(files, rng.randint(2, len(files) - 1))))
    if len(subsets) > max_subsets:
        keep = [s for s in subsets if len(s) == 1 or len(s) == len(files)]
        rest = [s for s in subsets if s not in keep]
        rng.shuffle(rest)
        subsets = keep + rest[: max(0, max_subsets - len(keep))]
    install_hook()
    for sub_i, sub in enumerate(subsets):
        ctx.case()
        case = {**base_case, "subset": sub}
        cli_runs.clear_outputs(cr)
        stat0 = {}
        content = {}
        for n in sub:
            p = cr["dir"] / n
            # now and then the pre-existing file is empty (a placeholder left by a failed run)
            r_ = rng.random()
            content[n] = b"" if r_ < 0.15 else SENTINEL + n.encode()
            if 0.15 <= r_ < 0.4 and ref_bytes.get(n):
                # left there by an earlier, identical run: byte for byte what this run would write
                content[n] = ref_bytes[n]
                ctx.count("no-clobber:pre-existing-file-identical-to-new-output")
            if not content[n]:
                ctx.count("no-clobber:empty-pre-existing-file")
            p.write_bytes(content[n])
            t_ns = 1_600_000_000_000_000_000
            if (sub_i + zlib.crc32(n.encode())) % 3 == 0:
                # a file dated ahead of the clock (skewed file server, restored archive): it collides all the same
                t_ns = (int(time.time()) + 86_400 * (1 + zlib.crc32(n.encode()) % 3000)) * 1_000_000_000
                ctx.count("no-clobber:pre-existing-file-dated-in-the-future")
                ctx.count("no-clobber:future-dated:" + _ftype(n))
            os.utime(p, ns=(t_ns, t_ns))
            st = p.stat()
            stat0[n] = (st.st_ino, st.st_mtime_ns, st.st_size)
        ctx.nontrivial([base_case["files"], out_name, write_log, sub])
        AUDIT["events"] = []
        AUDIT["on"] = True
        try:
            # (every fifth run at --log-level ERROR: a refusal is an error at every log level)
            lvl = ["--log-level", "ERROR"] if (len(sub) + len(content[sub[0]])) % 5 == 0 else []
            if lvl:
                ctx.count("no-clobber-runs-at-log-level-ERROR")
            res = cli_runs.run_pretext_to_asm(cr, out_name, [*extra, "--no-clobber", *lvl])
        finally:
            AUDIT["on"] = False
        ctx.count("no-clobber-runs")
        bad = False
        for sig, msg in audit_problems([str(cr["dir"] / n) for n in sub])[:2]:
            ctx.violation(f"no-clobber:{sig}:{_kind(sub, msg)}", f"subset {sub}: {msg}", case)
            bad = True
        for n in sub:
            p = cr["dir"] / n
            if not p.exists():
                ctx.violation(f"no-clobber:existing-file-removed:{_ftype(n)}", f"subset {sub}: {n} vanished", case)
                bad = True
                continue
            st = p.stat()
            if p.read_bytes() != content[n]:
                kind = "empty-file" if not content[n] else "file"
                ctx.violation(f"no-clobber:existing-{kind}-content-changed:{_ftype(n)}", f"subset {sub}: {n} now {p.read_bytes()[:80]!r}", case)
                bad = True
            elif (st.st_ino, st.st_mtime_ns, st.st_size) != stat0[n]:
                ctx.violation(f"no-clobber:existing-file-rewritten-in-place:{_ftype(n)}", f"subset {sub}: {n} inode/mtime changed {stat0[n]} -> {(st.st_ino, st.st_mtime_ns, st.st_size)}", case)
                bad = True
        if res["exit_code"] == 0:
            ctx.violation(f"no-clobber:exit-status-zero:{_ftype(sub[0])}", f"subset {sub}: run succeeded\nstderr={res['stderr'][-300:]}", case)
            bad = True
        else:
            text = res["stderr"] + (res["stdout"] or "")
            logp = cr["dir"] / (Path(out_name).stem + ".log")
            if write_log and logp.exists() and logp.name not in sub:
                text += logp.read_text(errors="replace")
            if not any(n in text for n in sub):
                ctx.violation("no-clobber:error-does-not-name-a-colliding-file", f"subset {sub}: exit {res['exit_code']} message {text[-400:]!r}", case)
                bad = True
        if not bad:
            ctx.count("no-clobber-ok")
    # bystanders: files a run of this kind *could* write but this one does not (reports of an earlier,
    # different run).  They are no collision - the run succeeds - and must be left exactly as they were.
    stem = Path(out_name).stem
    root = re.sub(r"\.\d+$", "", stem)
    ver = (re.search(r"\.(\d+)$", stem) or [None, "1"])[1]
    ext = out_name.rsplit(".", 1)[1]
    potential = [f"{stem}.chr_report.csv", f"{root}.{ver}.primary.chromosome.list.csv", f"{root}.{ver}.additional_haplotigs.curated.{ext}",
                 f"{root}.{ver}.contaminants.{ext}", f"{root}.{ver}.falseduplicates.{ext}", f"{root}.hap2.{ver}.primary.chromosome.list.csv"]
    bystanders = [n for n in potential if n not in files]
    if bystanders:
        for clob in ("--no-clobber", "--clobber"):
            ctx.case()
            cli_runs.clear_outputs(cr)
            chosen = rng.sample(bystanders, rng.randint(1, len(bystanders)))
            for n in chosen:
                (cr["dir"] / n).write_bytes(SENTINEL + n.encode())
            AUDIT["events"] = []
            AUDIT["on"] = True
            try:
                res = cli_runs.run_pretext_to_asm(cr, out_name, [*extra, clob])
            finally:
                AUDIT["on"] = False
            ctx.count("bystander-runs")
            case = {**base_case, "bystanders": chosen, "clobber": clob}
            ctx.nontrivial([base_case["files"], out_name, write_log, "bystanders", chosen, clob])
            okb = True
            for sig, msg in audit_problems([str(cr["dir"] / n) for n in chosen])[:2]:
                ctx.violation(f"bystander:{sig}:{_kind(chosen, msg)}", f"{clob}: {msg}", case)
                okb = False
            for n in chosen:
                pth = cr["dir"] / n
                if not pth.exists() or pth.read_bytes() != SENTINEL + n.encode():
                    ctx.violation(f"bystander:file-that-is-not-an-output-of-this-run-was-altered:{_ftype(n)}", f"{clob}: {n} {'removed' if not pth.exists() else 'changed'}", case)
                    okb = False
            if res["exit_code"] != 0:
                ctx.violation("bystander:run-failed-although-nothing-collides", f"{clob}: exit {res['exit_code']} {res['stderr'][-200:]}", case)
                okb = False
            if okb:
                ctx.count("bystander-ok")
    # an earlier invocation in the same process (another output name, with a log) leaves nothing behind that makes
    # this one touch the earlier run's files; and logging configured by an embedding application does not switch
    # the log-file collision check off
    ext_ = out_name.rsplit(".", 1)[1]
    for first_opts, second_opts in ((["--write-log"], ["--no-write-log", "--no-clobber"]), (["--write-log", "--no-clobber"], ["--no-write-log", "--clobber"])):
        ctx.case()
        cli_runs.clear_outputs(cr)
        r1 = cli_runs.run_pretext_to_asm(cr, f"earlier.{ext_}", first_opts)
        if r1["exit_code"] != 0:
            continue
        before = {n: ((cr["dir"] / n).read_bytes(), (cr["dir"] / n).stat().st_ino) for n in outputs_of(cr)}
        r2 = cli_runs.run_pretext_to_asm(cr, out_name, second_opts)
        ctx.count("earlier-invocation-in-process-runs")
        case = {**base_case, "earlier": first_opts, "then": second_opts}
        if r2["exit_code"] != 0:
            ctx.violation("earlier-invocation:run-failed-although-nothing-collides", f"{second_opts}: exit {r2['exit_code']} {r2['stderr'][-200:]}", case)
            continue
        bad = [n for n, (b_, ino) in before.items() if not (cr["dir"] / n).exists() or (cr["dir"] / n).read_bytes() != b_ or (cr["dir"] / n).stat().st_ino != ino]
        if bad:
            ctx.violation(f"earlier-invocation:file-of-the-earlier-run-was-altered:{_ftype(bad[0])}", f"{first_opts} then {second_opts}: {bad}", case)
    if write_log:
        import logging

        ctx.case()
        cli_runs.clear_outputs(cr)
        logp_ = cr["dir"] / (out_name.rsplit(".", 1)[0] + ".log")
        logp_.write_bytes(SENTINEL + b"log")
        handler = logging.StreamHandler(io.StringIO())
        logging.root.addHandler(handler)
        try:
            r3 = cli_runs.run_pretext_to_asm(cr, out_name, ["--write-log", "--no-clobber"])
        finally:
            logging.root.removeHandler(handler)
        ctx.count("no-clobber:logging-already-configured-by-the-caller")
        case = {**base_case, "subset": [logp_.name], "root_handler": True}
        if r3["exit_code"] == 0:
            ctx.violation("no-clobber:exit-status-zero:log:logging-already-configured", f"log pre-exists, exit 0; stderr {r3['stderr'][-200:]}", case)
        elif logp_.read_bytes() != SENTINEL + b"log":
            ctx.violation("no-clobber:pre-existing-file-changed:log:logging-already-configured", "log changed", case)
    # --clobber leg: sentinels longer than the real output; everything completely rewritten
    for sub in (list(files), [files[rng.randrange(len(files))]]):
        ctx.case()
        cli_runs.clear_outputs(cr)
        for n in sub:
            (cr["dir"] / n).write_bytes(SENTINEL * 3 + ref_bytes[n])
            if n.endswith(".info.yaml") and rng.random() < 0.7:
                # the report of an earlier, different curation: well-formed, with entries this run does not produce
                (cr["dir"] / n).write_bytes(ref_bytes[n] + b"manual_breaks_in_an_earlier_run: 3\nmanual_joins_in_an_earlier_run: 8\nnotes: added by hand\n")
                ctx.count("clobber:well-formed-report-of-an-earlier-run-in-place")
        res = cli_runs.run_pretext_to_asm(cr, out_name, [*extra, "--clobber"] if rng.random() < 0.5 else extra)
        case = {**base_case, "subset": sub, "clobber": True}
        if res["exit_code"] != 0:
            ctx.violation("clobber:run-failed", f"exit {res['exit_code']} {res['stderr'][-300:]}", case)
            continue
        now = {n: (cr["dir"] / n).read_bytes() for n in outputs_of(cr)}
        if now != ref_bytes:
            diff = [n for n in set(now) | set(ref_bytes) if now.get(n) != ref_bytes.get(n)]
            kind = "sentinel-bytes-left" if any(SENTINEL[:40] in now.get(n, b"") for n in diff) else "differs-from-reference"
            ctx.violation(f"clobber:output-not-completely-rewritten:{kind}:{_ftype(diff[0])}", f"files {diff}", case)
        else:
            ctx.count("clobber-ok")
    if len(ctx.samples) < 2 and len(files) >= 4:
        ctx.sample({"output_files": files, "example_subset": subsets[len(subsets) // 2], "out_name": out_name, "write_log": write_log})


def hostile_case(ctx, cr, out_name, write_log, rng):
    """Pre-existing outputs that are symlinks (to a file / dangling), and a competitor that
    creates an output file just before the program opens it."""
    from vf import cli_runs

    extra = ["--write-log" if write_log else "--no-write-log"]
    cli_runs.clear_outputs(cr)
    ref = cli_runs.run_pretext_to_asm(cr, out_name, extra)
    if ref["exit_code"] != 0:
        return
    files = outputs_of(cr)
    base_case = cli_runs.case_of(cr, {"out_name": out_name, "write_log": write_log, "hostile": True})
    tdir = cr["dir"] / "targets"
    install_hook()
    for leg in ("symlink-to-file", "dangling-symlink", "race"):
        for n in ([f for f in files if f.endswith(".log")] + rng.sample(files, min(2, len(files))))[:3]:
            ctx.case()
            cli_runs.clear_outputs(cr)
            shutil.rmtree(tdir, ignore_errors=True)
            tdir.mkdir()
            p = cr["dir"] / n
            case = {**base_case, "leg": leg, "file": n}
            ctx.nontrivial([base_case["files"], out_name, write_log, leg, n])
            AUDIT["events"] = []
            AUDIT["inject"] = None
            AUDIT["injected"] = []
            if leg == "symlink-to-file":
                (tdir / n).write_bytes(SENTINEL)
                p.symlink_to(tdir / n)
            elif leg == "dangling-symlink":
                p.symlink_to(tdir / (n + ".absent"))
            else:
                AUDIT["inject"] = {os.path.realpath(p)}
            AUDIT["on"] = True
            try:
                res = cli_runs.run_pretext_to_asm(cr, out_name, [*extra, "--no-clobber"])
            finally:
                AUDIT["on"] = False
                AUDIT["inject"] = None
            ctx.count(f"hostile:{leg}")
            ok = True
            if leg == "symlink-to-file":
                if (tdir / n).read_bytes() != SENTINEL or not p.is_symlink():
                    ctx.violation(f"no-clobber:wrote-through-symlink-to-existing-file:{_ftype(n)}", f"{n}", case)
                    ok = False
            elif leg == "dangling-symlink":
                if (tdir / (n + ".absent")).exists() or not p.is_symlink():
                    ctx.violation(f"no-clobber:wrote-through-dangling-symlink:{_ftype(n)}", f"{n}: target created / link replaced", case)
                    ok = False
            else:
                if not AUDIT["injected"]:
                    ctx.count("hostile:race-not-injected")
                    continue
                if p.read_bytes() != COMPETITOR:
                    ctx.violation(f"no-clobber:file-created-by-competitor-before-open-was-overwritten:{_ftype(n)}", f"{n} now {p.read_bytes()[:60]!r}", case)
                    ok = False
            if ok and res["exit_code"] == 0:
                ctx.violation(f"no-clobber:exit-status-zero:{leg}:{_ftype(n)}", f"{n}: run succeeded although the path was taken", case)
                ok = False
            if ok:
                ctx.count("hostile-ok")
            if p.is_symlink():
                p.unlink()
    shutil.rmtree(tdir, ignore_errors=True)


def _ftype(name):
    for suf, t in ((".log", "log"), (".info.yaml", "info-yaml"), (".chr_report.csv", "chr-report-csv"), (".chromosome.list.csv", "chromosome-list-csv"), (".agp", "agp"), (".tpf", "tpf"), (".fa", "fasta")):
        if name.endswith(suf):
            return t
    return "other"


def _kind(sub, msg):
    m = re.search(r"'([^']+)'", msg)
    return _ftype(os.path.basename(m.group(1))) if m else "?"


def strace_case(ctx, cr, out_name, write_log, rng):
    """Thorough: the real CLI in a subprocess under strace; same rule on syscalls."""
    from vf import cli_runs

    extra = ["--write-log" if write_log else "--no-write-log"]
    cli_runs.clear_outputs(cr)
    ref = cli_runs.run_pretext_to_asm(cr, out_name, extra)
    if ref["exit_code"] != 0:
        return
    files = outputs_of(cr)
    sub = sorted(rng.sample(files, rng.randint(1, len(files))))
    cli_runs.clear_outputs(cr)
    for n in sub:
        (cr["dir"] / n).write_bytes(SENTINEL + n.encode())
    trace = cr["dir"] / "strace.out"
    args = cli_runs.p2a_args(cr, out_name, [*extra, "--no-clobber"])
    cp = subprocess.run(
        ["strace", "-f", "-o", str(trace), "-e", "trace=openat,open,creat,rename,renameat,renameat2,unlink,unlinkat,truncate,ftruncate",
         env.PYTHON, "-m", "tola.assembly.scripts.pretext_to_asm", *args],
        env=env.child_env(), cwd=str(cr["dir"]), stdout=subprocess.PIPE, stderr=subprocess.PIPE, timeout=600,
    )
    ctx.case()
    ctx.count("strace-runs")
    case = cli_runs.case_of(cr, {"out_name": out_name, "write_log": write_log, "subset": sub, "strace": True})
    ctx.nontrivial([case["files"], out_name, sub, "strace"])
    pre = {str(cr["dir"] / n) for n in sub}
    txt = trace.read_text(errors="replace")
    trace.unlink()
    for line in txt.splitlines():
        m = re.search(r'(openat|open|creat)\((?:AT_FDCWD, )?"([^"]+)", ([A-Z_|0-9]+)', line)
        if m and os.path.realpath(os.path.join(str(cr["dir"]), m.group(2))) in pre:
            flags = m.group(3)
            if (("O_WRONLY" in flags or "O_RDWR" in flags or "O_TRUNC" in flags) and "O_EXCL" not in flags) or m.group(1) == "creat":
                ctx.violation(f"strace:existing-file-opened-for-writing:{_ftype(os.path.basename(m.group(2)))}", line[:300], case)
        m = re.search(r'(rename|renameat|renameat2|unlink|unlinkat|truncate)\((.*)', line)
        if m and any(p in m.group(2) for p in pre) and "= 0" in line:
            ctx.violation("strace:existing-file-renamed-or-removed", line[:300], case)
    if cp.returncode == 0:
        ctx.violation("strace:exit-status-zero", f"subset {sub}", case)
    for n in sub:
        if (cr["dir"] / n).read_bytes() != SENTINEL + n.encode():
            ctx.violation(f"strace:existing-file-content-changed:{_ftype(n)}", n, case)
    ctx.count("strace-ok")


def make_cr(rng, d, k):
    from vf import cli_runs

    fmt = ["fa", "agp", "tpf"][k % 3]
    multi = (k // 3) % 2 == 1
    if fmt == "fa":
        cr = cli_runs.fasta_case(rng, d, tagged=multi, two_hap=(multi and rng.random() < 0.3))
    else:
        cr = cli_runs.text_case(rng, d, fmt=rng.choice(["tpf", "agp"]), tagged=multi, two_hap=(multi and rng.random() < 0.3))
    return cr, f"out.{rng.choice(['', '3.'])}{fmt}"


def run(shard, ctx):
    from vf import cli_runs

    scratch = Path(os.environ.get("VERIF_SHARD_SCRATCH", "."))
    for i in range(shard["n"]):
        rng = rng_for(shard["seed"], "c16", shard["index"], i)
        cr, out_name = make_cr(rng, scratch / f"c{i}", i + shard["index"])
        try:
            if shard["kind"] == "strace":
                strace_case(ctx, cr, out_name, rng.random() < 0.5, rng)
            elif shard["kind"] == "hostile":
                hostile_case(ctx, cr, out_name, (i % 3 != 2), rng)
            else:
                check_case(ctx, cr, out_name, (i % 2 == 0), rng, shard["tier"], shard["max_subsets"])
        finally:
            cli_runs.cleanup(cr)


def replay(case, ctx):
    from vf import cli_runs

    cr = cli_runs.restore_case(case, Path(os.environ.get("VERIF_SHARD_SCRATCH", ".")) / "replay")
    rng = rng_for(0, "replay")
    if case.get("strace"):
        strace_case(ctx, cr, case["out_name"], case["write_log"], rng)
    elif case.get("hostile"):
        hostile_case(ctx, cr, case["out_name"], case["write_log"], rng)
    else:
        check_case(ctx, cr, case["out_name"], case["write_log"], rng, "quick", 70)


def plan(tier, seed):
    n, per, ms = (16, 8, 40) if tier == "quick" else (16, 24, 70)
    sh = [{"kind": "audit", "n": per, "max_subsets": ms} for _ in range(n)]
    sh += [{"kind": "hostile", "n": 4 if tier == "quick" else 40, "max_subsets": 0} for _ in range(3)]
    if tier == "thorough":
        sh += [{"kind": "strace", "n": 10, "max_subsets": 0} for _ in range(15)]
    else:
        sh += [{"kind": "strace", "n": 2, "max_subsets": 0} for _ in range(3)]
    return sh


def gates(c, tier):
    need = {
        "no-clobber-ok": 500,
        "no-clobber:pre-existing-file-identical-to-new-output": 300,
        "clobber-ok": 60,
        "format:fa": 8,
        "format:agp": 8,
        "format:tpf": 8,
        "log:on": 15,
        "no-clobber-runs-at-log-level-ERROR": 50,
        "clobber:well-formed-report-of-an-earlier-run-in-place": 20,
        "earlier-invocation-in-process-runs": 30,
        "no-clobber:logging-already-configured-by-the-caller": 10,
        "log:off": 15,
        "assemblies:multi": 8,
        "assemblies:single": 8,
        "strace-ok": 4,
        "hostile-ok": 40,
        "hostile:race": 10,
        "bystander-ok": 40,
        "no-clobber:empty-pre-existing-file": 50,
    }
    return [f"{k}>={v} (got {c.get(k, 0)})" for k, v in need.items() if c.get(k, 0) < v]
