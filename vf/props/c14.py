"""C14  Reversal and reverse-complement are involutions that commute with output.

Monitors: icontract post-conditions on the real Scaffold.reverse and
simple.reverse_complement (they fire inside every streaming / remap workload
as well); direct: all 256 byte values, random byte strings, the streaming law
stream(S.reverse()) == revcomp(stream(S)) over G-fasta x G-sub x buffers.
"""

import base64
import io
import os
from pathlib import Path

from vf.core import build_scaffold, dump_row, rng_for
from vf.gen import fasta as gfa
from vf.mon import contracts
from vf.ref import fasta_ref

ID = "C14"
LEVEL = "exploration"
RULE = (
    "cases = (a) every call of Scaffold.reverse / reverse_complement made by the workloads, checked by the attached "
    "contracts; (b) all 256 byte values through the complement table (exhaustive) and seeded random byte strings; "
    "(c) streaming law on G-fasta x G-sub x buffer sizes: for scaffolds whose rows have known strand the streamed "
    "reverse equals the IUPAC reverse complement of the streamed original, for '?' rows the mirrored-position residue "
    "law; (d) in situ: reversals performed by the remap pipeline (minus-strand baits). Non-trivial = scaffold with "
    ">=2 rows or byte string with >=2 distinct bytes."
)
ASSUMPTIONS = [
    "for rows of unknown strand the involution law is checked for all strands, the stream law only for known strands (the two sentences cannot both hold for '?', see DESIGN 3-C14)",
]

_BUSY = {"rev": False}


def plain_reverse(rows):
    out = []
    for r in reversed(rows):
        if r[0] == "G":
            out.append(list(r))
        else:
            out.append(["F", r[1], r[2], r[3], -r[4], list(r[5])])
    return out


def attach(ctx, origin="insitu"):
    import tola.fasta.simple as simple
    from tola.assembly.scaffold import Scaffold

    def reverse_mirrors_rows_and_negates_strands(self, result):
        if _BUSY["rev"] or type(self).__name__ == "OverlapResult":
            return True
        ctx.count(f"{origin}:reverse-calls")
        rows = [dump_row(r) for r in self.rows]
        got = [dump_row(r) for r in result.rows]
        case = {"kind": "scaffold", "rows": rows}
        want = plain_reverse(rows)
        if got != want:
            sig = "reverse-rows"
            if len(got) == len(want):
                k = next(i for i in range(len(got)) if got[i] != want[i])
                if got[k][0] == "F" and want[k][0] == "F":
                    f = next(j for j in range(1, 6) if got[k][j] != want[k][j])
                    sig = "reverse-" + ["", "name", "start", "end", "strand", "tags"][f]
                else:
                    sig = "reverse-row-order"
            ctx.violation(sig, f"reverse of {rows[:8]} gave {got[:8]}, expected {want[:8]}", case)
            return True
        if result.length != self.length:
            ctx.violation("reverse-length", f"length {self.length} -> {result.length}", case)
        for a, b in zip(reversed(self.rows), result.rows):
            if hasattr(a, "gap_type") and a is not b:
                ctx.count("note:gap-object-not-identical")
        if result.name != self.name:
            ctx.violation("reverse-name", f"{self.name} -> {result.name}", case)
        _BUSY["rev"] = True
        try:
            back = [dump_row(r) for r in result.reverse().rows]
        finally:
            _BUSY["rev"] = False
        if back != rows:
            ctx.violation("reverse-twice-not-identity", f"{rows[:8]} -> {back[:8]}", case)
        if len(rows) >= 2:
            ctx.nontrivial(rows)
        return True

    contracts.attach(Scaffold, "reverse", post=reverse_mirrors_rows_and_negates_strands, label="C14.Scaffold.reverse")

    def revcomp_is_iupac_involution(seq, result):
        ctx.count(f"{origin}:revcomp-calls")
        want = fasta_ref.revcomp(seq)
        case = {"kind": "bytes", "data": base64.b64encode(bytes(seq[:4000])).decode()}
        if bytes(result) != want:
            sig = "revcomp-length" if len(result) != len(seq) else "revcomp-table"
            ctx.violation(sig, f"reverse_complement({bytes(seq[:60])!r}) = {bytes(result[:60])!r}, IUPAC gives {want[:60]!r}", case)
        elif fasta_ref.revcomp(bytes(result)) != bytes(seq):
            ctx.violation("revcomp-twice-not-identity", f"{bytes(seq[:60])!r}", case)
        return True

    contracts.attach(simple, "reverse_complement", post=revcomp_is_iupac_involution, label="C14.reverse_complement")

    # mechanism named in the property's anchors: "minus-strand baits reverse the fused overlap result"
    from tola.assembly.overlap_result import OverlapResult

    def rows_before(self):
        return [dump_row(r) for r in self.rows]

    def only_minus_strand_baits_reverse(self, result, OLD):
        ctx.count(f"{origin}:to_scaffold-calls:bait-strand={self.bait.strand}")
        got = [dump_row(r) for r in result.rows]
        want = plain_reverse(OLD.rows) if self.bait.strand == -1 else OLD.rows
        if got != want:
            ctx.violation(
                f"to_scaffold-orientation-for-bait-strand-{self.bait.strand}",
                f"bait {self.bait}: rows {OLD.rows[:6]} became {got[:6]}",
                {"kind": "scaffold", "rows": OLD.rows},
            )
        return True

    contracts.attach(OverlapResult, "to_scaffold", post=only_minus_strand_baits_reverse, snapshots=[(rows_before, "rows")], label="C14.to_scaffold")


def run_table(shard, ctx):
    from tola.fasta.simple import IUPAC_COMPLEMENT, FastaSeq, reverse_complement

    for b in range(256):
        ctx.case()
        x = bytes([b])
        y = reverse_complement(x)
        z = reverse_complement(y)
        case = {"kind": "bytes", "data": base64.b64encode(x).decode()}
        if z != x:
            ctx.violation("revcomp-twice-not-identity", f"byte {b}: {x!r} -> {y!r} -> {z!r}", case)
        if y != bytes([fasta_ref.COMPLEMENT[b]]):
            ctx.violation("revcomp-table", f"byte {b} ({x!r}) complemented to {y!r}, IUPAC gives {bytes([fasta_ref.COMPLEMENT[b]])!r}", case)
        if bytes([IUPAC_COMPLEMENT[b]]) != y:
            ctx.violation("revcomp-table", f"table entry {b} differs from function result", case)
        if x.isalpha() and y.isupper() != x.isupper():
            ctx.violation("revcomp-case-not-preserved", f"{x!r} -> {y!r}", case)
        ctx.count("table:bytes")
        ctx.nontrivial(["byte", b])
    ctx.note("exhaustive_subspace", "all 256 byte values through reverse_complement: enumerated completely")
    for i in range(shard["n"]):
        rng = rng_for(shard["seed"], "c14b", shard["index"], i)
        alpha = rng.choice([bytes(range(256)), b"ACGTRYMKSWHBVDNacgtrymkswhbvdn", b"ACGTN-*xX"])
        s = bytes(rng.choice(alpha) for _ in range(rng.choice([0, 1, 2, 3, 60, 61, rng.randint(1, 500)])))
        ctx.case()
        r = reverse_complement(s)
        if len(set(s)) >= 2:
            ctx.nontrivial(["bytes", base64.b64encode(s).decode()])
        fs = FastaSeq("x", s).rev_comp()
        if fs.sequence != r or fs.rev_comp().sequence != s:
            ctx.violation("fastaseq-rev-comp", f"{s[:40]!r}", {"kind": "bytes", "data": base64.b64encode(s).decode()})
        ctx.count("random-bytes")
    # chromosome-sized inputs: around and beyond 1 MiB, multiples and non-multiples of it
    rng = rng_for(shard["seed"], "c14big", shard["index"])
    for n in (2**20 - 1, 2**20 + 1, 2 * 2**20 + rng.randint(1, 99999), 3 * 2**20):
        block = bytes(rng.choice(b"ACGTNacgtnRYKM") for _ in range(4099))
        s = (block * (n // 4099 + 1))[:n]
        ctx.case()
        r = reverse_complement(s)
        ctx.count("big-bytes")
        if len(r) != n or r != fasta_ref.revcomp(s) or reverse_complement(r) != s:
            ctx.violation("reverse-complement-of-long-input", f"length {n}: result length {len(r)}, equal to reference: {r == fasta_ref.revcomp(s)}", {"kind": "bigbytes", "n": n})
    ctx.sample({"bytes": "ACGTRYKMBDHVNacgtn-*", "reverse_complement": fasta_ref.revcomp(b"ACGTRYKMBDHVNacgtn-*").decode()})


def check_stream_law(ctx, data, sc, bs, scratch):
    from tola.fasta.index import FastaIndex
    from tola.fasta.stream import FastaStream

    ctx.case()
    case = {"kind": "streamlaw", "data": base64.b64encode(data).decode(), "scaffold": sc, "buffer": bs}
    p = Path(scratch) / "r.fa"
    for q in (p, Path(str(p) + ".fai"), Path(str(p) + ".agp")):
        if q.exists():
            q.unlink()
    p.write_bytes(data)
    recs = {r["name"]: r for r in fasta_ref.parse(data)}
    fi = FastaIndex(p, bs)
    fi.auto_load()
    edited_bad = None
    try:
        s_obj = build_scaffold(sc)
        o1 = io.BytesIO()
        FastaStream(o1, fi).write_scaffold(s_obj)
        o2 = io.BytesIO()
        rev = s_obj.reverse()
        FastaStream(o2, fi).write_scaffold(rev)
        # the original and its reversal written by ONE write_assembly call (both strands of a scaffold side by
        # side, as for a strand-specific view): two entries, the second the reverse complement of the first
        from tola.assembly.assembly import Assembly

        # the same index serves a writer with another gap character afterwards: the reversed scaffold streamed
        # with gaps as 'n' is the mirrored rows with gaps as 'n'
        o4 = io.BytesIO()
        FastaStream(o4, fi, gap_character=b"n").write_scaffold(rev)
        o3 = io.BytesIO()
        FastaStream(o3, fi).write_assembly(Assembly("both", scaffolds=[s_obj, rev]))
        ctx.count("streamlaw:original-and-reversal-in-one-assembly")
        # a reversed scaffold is a scaffold like any other: extend it, reverse it again -> the mirrored rows of
        # what it holds NOW (not a remembered original)
        edited = s_obj.reverse()
        extra = build_scaffold(sc)
        edited.append_scaffold(extra)
        back = edited.reverse()
        want_rows = plain_reverse(plain_reverse(sc[1]) + sc[1])
        got_rows = [dump_row(r) for r in back.rows]
        ctx.count("direct:reverse-of-edited-reversed-scaffold")
        if [r[:5] if r[0] == "F" else r for r in got_rows] != [r[:5] if r[0] == "F" else r for r in want_rows]:
            edited_bad = (got_rows, want_rows)
        # the chunk iterator a row is streamed from, used the other ways an iterator may be used: all chunks
        # fetched before any is read, and two iterators advanced in step (two outputs written side by side)
        held_bad = None
        for r in [x for x in rev.rows if hasattr(x, "strand")][:4]:
            want_r = recs[r.name]["seq"][r.start - 1 : r.end]
            if r.strand == -1:
                want_r = fasta_ref.revcomp(want_r)
            held = list(fi.get_sequence_iter(r))
            got_held = b"".join(c.getvalue() for c in held)
            pair = [(c1.getvalue(), c2.getvalue()) for c1, c2 in zip(fi.get_sequence_iter(r), fi.get_sequence_iter(r))]
            ctx.count("streamlaw:chunks-held-and-zipped" + (":several-chunks" if len(held) > 1 else ""))
            if got_held != want_r:
                held_bad = ("chunks-held-before-reading-differ", r, got_held, want_r)
            elif b"".join(a for a, _ in pair) != want_r or b"".join(b for _, b in pair) != want_r:
                held_bad = ("two-iterators-in-step-differ", r, b"".join(a for a, _ in pair), want_r)
            if held_bad:
                break
    except Exception as e:  # noqa: BLE001 - streaming a valid scaffold (either way round) must not fail
        ctx.violation(f"streaming-raised-{type(e).__name__}", f"scaffold {sc} buffer={bs}: {type(e).__name__}: {e}", case)
        return
    finally:
        fh = fi.__dict__.get("fasta_fileandle")
        if fh:
            fh.close()
    body1 = b"".join(o1.getvalue().split(b"\n")[1:])
    body2 = b"".join(o2.getvalue().split(b"\n")[1:])
    known = all(r[0] == "G" or r[4] != 0 for r in sc[1])
    ctx.nontrivial([case["data"], sc, bs])
    if o3.getvalue() != o1.getvalue() + o2.getvalue():
        ctx.violation("original-and-reversal-in-one-assembly-differ-from-streaming-each", f"scaffold {sc} buffer={bs}\n got {o3.getvalue()[:160]!r}\nwant {(o1.getvalue() + o2.getvalue())[:160]!r}", case)
        return
    if edited_bad:
        ctx.violation("reverse-of-edited-reversed-scaffold", f"scaffold {sc}: got {edited_bad[0][:6]} expected {edited_bad[1][:6]}", case)
        return
    if held_bad:
        sig, r, g_, w_ = held_bad
        ctx.violation(f"row-sequence:{sig}", f"row {r} buffer={bs}\n got {g_[:120]!r}\nwant {w_[:120]!r}", case)
        return
    if known:
        ctx.count("streamlaw:known-strands")
        if body2 != fasta_ref.revcomp(body1):
            ctx.violation("streamed-reverse-is-not-revcomp-of-streamed-original", f"scaffold {sc} buffer={bs}\n fwd {body1[:120]!r}\n rev {body2[:120]!r}\nwant {fasta_ref.revcomp(body1)[:120]!r}", case)
            return
    else:
        ctx.count("streamlaw:with-unknown-strand")
    # mirrored-position law (all strands): the reversed scaffold streams what the reference
    # model gives for the mirrored rows ('?' rows forward)
    want = b"".join(fasta_ref.apply([[sc[0], plain_reverse(sc[1])]], recs, 60).split(b"\n")[1:])
    if body2 != want:
        ctx.violation("streamed-reverse-differs-from-mirrored-rows", f"scaffold {sc} buffer={bs}\n got {body2[:120]!r}\nwant {want[:120]!r}", case)
        return
    want4 = fasta_ref.apply([[sc[0], plain_reverse(sc[1])]], recs, 60, gap_char=b"n")
    ctx.count("streamlaw:reversed-with-another-gap-character")
    if o4.getvalue() != want4:
        ctx.violation("streamed-reverse-with-another-gap-character-differs-from-mirrored-rows", f"scaffold {sc} buffer={bs}\n got {o4.getvalue()[:160]!r}\nwant {want4[:160]!r}", case)
        return
    if len(body2) != len(body1):
        ctx.violation("streamed-reverse-length", f"{len(body1)} vs {len(body2)}", case)
    if len(ctx.samples) < 2 and known and len(sc[1]) > 2:
        ctx.sample({"scaffold": sc, "buffer": bs, "forward": body1[:80].decode("latin-1"), "reversed": body2[:80].decode("latin-1")})


def run_stream(shard, ctx):
    scratch = os.environ.get("VERIF_SHARD_SCRATCH", ".")
    for i in range(shard["n"]):
        rng = rng_for(shard["seed"], "c14s", shard["index"], i)
        data, meta = gfa.gen_fasta(rng, alphabet=rng.choice([None, b"ACGTRYKMSWBDHVNacgtrykmswbdhvn"]))
        w = rng.choice(meta["widths"])
        bs = rng.choice([1, 2, 3, 5, 7, 11, 59, 60, 61, max(1, w - 1), w, w + 1, 250000])
        strands = (1, -1) if rng.random() < 0.75 else (1, -1, 0)
        sc = gfa.gen_sub_assembly(rng, meta["records"], bs, nsc=1, strands=strands)[0]
        check_stream_law(ctx, data, sc, bs, scratch)


def run_insitu(shard, ctx):
    from vf import workloads

    workloads.run_remap_batch(shard, ctx, kinds=("pv", "hostile"), opts={"strands": [1, -1]})


def run(shard, ctx):
    attach(ctx, {"table": "direct", "stream": "direct", "insitu": "insitu"}[shard["kind"]])
    {"table": run_table, "stream": run_stream, "insitu": run_insitu}[shard["kind"]](shard, ctx)
    ctx.count("monitor_evals:Scaffold.reverse", contracts.evals("C14.Scaffold.reverse"))
    ctx.count("monitor_evals:reverse_complement", contracts.evals("C14.reverse_complement"))


def replay(case, ctx):
    attach(ctx, "direct")
    if case["kind"] == "scaffold":
        build_scaffold(["s", case["rows"]]).reverse()
    elif case["kind"] == "bytes":
        from tola.fasta.simple import reverse_complement

        reverse_complement(base64.b64decode(case["data"]))
    else:
        check_stream_law(ctx, base64.b64decode(case["data"]), case["scaffold"], case["buffer"], os.environ.get("VERIF_SHARD_SCRATCH", "."))


def plan(tier, seed):
    n, per = (11, 1500) if tier == "quick" else (14, 20000)
    ni, peri = (4, 1500) if tier == "quick" else (8, 10000)
    return (
        [{"kind": "table", "n": 2000 if tier == "quick" else 200000}]
        + [{"kind": "stream", "n": per} for _ in range(n)]
        + [{"kind": "insitu", "n": peri} for _ in range(ni)]
    )


def gates(c, tier):
    need = {
        "table:bytes": 256,
        "random-bytes": 1000,
        "big-bytes": 4,
        "streamlaw:known-strands": 1500,
        "streamlaw:with-unknown-strand": 200,
        "direct:reverse-of-edited-reversed-scaffold": 1500,
        "streamlaw:chunks-held-and-zipped:several-chunks": 500,
        "direct:reverse-calls": 2000,
        "insitu:reverse-calls": 200,
        "insitu:to_scaffold-calls:bait-strand=0": 20,
        "insitu:to_scaffold-calls:bait-strand=-1": 200,
        "direct:revcomp-calls": 3000,
    }
    return [f"{k}>={v} (got {c.get(k, 0)})" for k, v in need.items() if c.get(k, 0) < v]


def summarize(c, tier):
    return {"exhaustive_subspace_complete": c.get("table:bytes", 0) == 256}
