"""C19  Overlap QC reports exactly the overlapping contig pairs.

Monitors: icontract post-conditions on Fragment.overlaps / overlap_length /
abuts / gap_between (set semantics of closed integer intervals); the scan
Assembly.find_overlapping_fragments and the stderr of `asm-format
--qc-overlaps` are compared pair-for-pair with an O(n^2) reference.
"""

import itertools
import os
import re
from pathlib import Path

from vf.core import build_scaffolds, fmt_row, rng_for
from vf.mon import contracts

ID = "C19"
LEVEL = "exploration"
RULE = (
    "cases = (a) every ordered pair of intervals with 0<=s<=e<=7 x same/different contig name x strands "
    "(exhaustive sub-space) and seeded random pairs with coordinates up to 1e12, each through the four "
    "monitored predicates; (b) seeded random assemblies (duplicate, nested, abutting, disjoint intervals, "
    "same names across scaffolds) through find_overlapping_fragments and through the asm-format "
    "--qc-overlaps CLI. Non-trivial = same-name pair (predicates) / assembly with >=1 overlapping pair (scan)."
)
ASSUMPTIONS = ["intervals are closed, 1-based integer intervals; a fragment occurrence is identified by (scaffold, row index)"]


def ref_pair(a, b):
    """a, b: (name, start, end). Returns dict of expected predicate values."""
    if a[0] != b[0]:
        return {"overlaps": False, "overlap_length": None, "abuts": False, "gap_between": None}
    inter = min(a[2], b[2]) - max(a[1], b[1]) + 1
    if inter > 0:
        return {"overlaps": True, "overlap_length": inter, "abuts": False, "gap_between": None}
    gap = max(a[1], b[1]) - min(a[2], b[2]) - 1
    return {"overlaps": False, "overlap_length": None, "abuts": gap == 0, "gap_between": gap}


def attach(ctx):
    from tola.assembly.fragment import Fragment

    def mk(pred):
        def post(self, othr, result):
            exp = ref_pair((self.name, self.start, self.end), (othr.name, othr.start, othr.end))[pred]
            ctx.count(f"pred:{pred}")
            ok = (result == exp) and (type(result) is type(exp) or pred in ("overlap_length", "gap_between"))
            if pred in ("overlaps", "abuts") and result is not exp:
                ok = False
            if not ok:
                ctx.violation(
                    f"predicate-{pred}",
                    f"{self}.{pred}({othr}) = {result!r}, interval arithmetic gives {exp!r}",
                    {"kind": "pair", "a": [self.name, self.start, self.end, self.strand], "b": [othr.name, othr.start, othr.end, othr.strand]},
                )
            return True

        post.__name__ = f"{pred}_matches_interval_arithmetic"
        return post

    for pred in ("overlaps", "overlap_length", "abuts", "gap_between"):
        contracts.attach(Fragment, pred, post=mk(pred), label=f"C19.{pred}")


def eval_pair(ctx, a, b):
    """Call all four predicates both ways on real Fragments; check mutual consistency."""
    from tola.assembly.fragment import Fragment

    fa = Fragment(a[0], a[1], a[2], a[3])
    fb = Fragment(b[0], b[1], b[2], b[3])
    ctx.case()
    vals = {}
    for p in ("overlaps", "overlap_length", "abuts", "gap_between"):
        try:
            vals[p] = (getattr(fa, p)(fb), getattr(fb, p)(fa))
        except Exception as e:  # noqa: BLE001
            ctx.violation(f"predicate-{p}-raised", f"{fa}.{p}({fb}) raised {type(e).__name__}: {e}", {"kind": "pair", "a": a, "b": b})
            return
    case = {"kind": "pair", "a": a, "b": b}
    # the predicates answer for the integers that were given (whatever their size), not for a rounded copy
    if (fa.start, fa.end, fb.start, fb.end) != (a[1], a[2], b[1], b[2]):
        ctx.violation("fragment-coordinates-differ-from-those-given", f"given {a[1:3]} {b[1:3]}, held {fa.start}-{fa.end} {fb.start}-{fb.end}", case)
        return
    if bool(vals["overlaps"][0]) != (a[0] == b[0] and a[1] <= b[2] and b[1] <= a[2]):
        ctx.violation("overlaps-differs-from-the-integers-given", f"{fa} vs {fb}: overlaps={vals['overlaps'][0]}", case)
        return
    for p, (x, y) in vals.items():
        if x != y:
            ctx.violation(f"asymmetric-{p}", f"{fa}.{p}({fb})={x!r} but reversed={y!r}", case)
    if a[0] == b[0]:
        ctx.nontrivial([a[:3], b[:3]])
        ov, ab, gp = vals["overlaps"][0], vals["abuts"][0], vals["gap_between"][0]
        states = [bool(ov), bool(ab), gp is not None and gp > 0]
        if sum(states) != 1:
            ctx.violation("not-exactly-one-of-overlap-abut-gap", f"{fa} vs {fb}: overlaps={ov} abuts={ab} gap_between={gp}", case)
        if bool(ab) != (gp == 0):
            ctx.violation("abuts-iff-gap-zero", f"{fa} vs {fb}: abuts={ab} gap_between={gp}", case)
        if (vals["overlap_length"][0] is not None) != bool(ov):
            ctx.violation("overlap-length-iff-overlaps", f"{fa} vs {fb}: overlaps={ov} overlap_length={vals['overlap_length'][0]}", case)
        ctx.count("pairs:" + ("overlap" if ov else "abut" if ab else "gap"))
    else:
        ctx.count("pairs:different-name")


def run_exhaustive(shard, ctx):
    top = shard.get("top", 8)
    ivs = [(s, e) for s in range(0, top) for e in range(s, top)]
    k = 0
    for (s1, e1), (s2, e2) in itertools.product(ivs, ivs):
        for same in (True, False):
            for st1, st2 in itertools.product((1, -1, 0), repeat=2):
                k += 1
                if k % shard["nparts"] != shard["part"]:
                    continue
                eval_pair(ctx, ["c", s1, e1, st1], ["c" if same else "d", s2, e2, st2])
    ctx.count("exhaustive:parts")


def run_random_pairs(shard, ctx):
    for i in range(shard["n"]):
        rng = rng_for(shard["seed"], "c19p", shard["index"], i)
        mag = 10 ** rng.randint(0, 12)
        if i % 10 == 9:
            # coordinates are integers of any size: beyond 2**53 neighbouring values are not all distinct as floats
            mag = 2 ** rng.choice([53, 54, 60, 64]) + rng.randint(0, 7)
            ctx.count("pairs:coordinates-beyond-2^53")
        s1 = rng.randint(0, mag)
        e1 = s1 + rng.choice([0, 1, rng.randint(0, mag)])
        m = rng.random()
        if m < 0.5:
            s2 = max(0, rng.choice([s1, e1]) + rng.randint(-2, 2))
        else:
            s2 = rng.randint(0, mag)
        e2 = s2 + rng.choice([0, 1, rng.randint(0, mag)])
        same = rng.random() < 0.8
        eval_pair(ctx, ["ctg", s1, e1, rng.choice([1, -1])], ["ctg" if same else "ctg2", s2, e2, rng.choice([1, -1])])


def gen_assembly(rng):
    names = [f"ctg{k}" for k in range(rng.randint(1, 4))]
    if rng.random() < 0.2:
        names = [n + rng.choice([":1-5000", ":7", "-1-2"]) for n in names]  # names that look like regions themselves
    if rng.random() < 0.3:
        # distinct names that a numeric-aware comparison may take for equal
        names += rng.choice([["ctg_7", "ctg_07"], ["chr1", "chrI"], ["c2", "c02", "c002"], ["s1.1", "s1.01"]])
    scs = []
    # (chromosome-sized pieces in some assemblies: a piece of a few Mbp inside one of tens of Mbp)
    scale = rng.choice([1, 1, 1, 1, 250_000, 1_000_000])
    for si in range(rng.randint(1, 5)):
        rows = []
        for _ in range(rng.randint(1, 7)):
            if rows and rng.random() < 0.3:
                rows.append(["G", rng.choice([1, 100, 200]), "scaffold"])
            st = rng.randint(1, 60) * scale - rng.choice([0, scale - 1])
            rows.append(["F", rng.choice(names), st, st + rng.choice([0, 1, 5, 20, 60]) * scale, rng.choice([1, -1]), []])
            if rng.random() < 0.15:
                rows.append(list(rows[-1]))  # exact duplicate
                rows[-1][5] = []
            if rng.random() < 0.15:
                f = rows[-1]
                rows.append(["F", f[1], f[3] + 1, f[3] + 1 + rng.randint(0, 9), f[4], []])  # abutting
        scs.append([f"sc{si}", rows])
    if len(scs) >= 2 and rng.random() < 0.12:
        # the lines of one scaffold come in two blocks, those of another in between (concatenated / unsorted AGP)
        k = rng.randrange(len(scs) - 1)
        rows = scs[k][1]
        cut = next((i for i in range(1, len(rows)) if rows[i][0] == "F" and rows[i - 1][0] == "F"), None) or next((i for i in range(1, len(rows)) if rows[i][0] == "F"), None)
        if cut:
            head, tail = rows[:cut], rows[cut:]
            while head and head[-1][0] == "G":
                head.pop()
            if head and tail:
                scs[k][1] = head
                scs.insert(k + 2, [scs[k][0], tail])
    return scs


def ref_scan(scs):
    occ = []
    for si, (_, rows) in enumerate(scs):
        for ri, r in enumerate(rows):
            if r[0] == "F":
                occ.append((si, ri, r))
    pairs = set()
    for i in range(len(occ)):
        for j in range(i + 1, len(occ)):
            a, b = occ[i][2], occ[j][2]
            if a[1] == b[1] and min(a[3], b[3]) >= max(a[2], b[2]):
                pairs.add((occ[i][:2], occ[j][:2]))
    return pairs


def check_scan_shared(ctx, scs, objs, exp, case, a=None, tag="shared-row-objects"):
    from tola.assembly.assembly import Assembly

    a = a or Assembly("a", scaffolds=objs)
    try:
        got = a.find_overlapping_fragments()
    except Exception as e:  # noqa: BLE001
        ctx.violation("scan-raised", f"find_overlapping_fragments raised {type(e).__name__}: {e}", case)
        return
    idx = {id(s_): si for si, s_ in enumerate(objs)}

    def d(si, r):
        return (si, r[1], r[2], r[3], r[4])

    got_desc = sorted(tuple(sorted(((idx.get(id(s1)), f1.name, f1.start, f1.end, f1.strand), (idx.get(id(s2)), f2.name, f2.start, f2.end, f2.strand)))) for (f1, s1), (f2, s2) in got or [])
    exp_desc = sorted(tuple(sorted((d(p1[0], scs[p1[0]][1][p1[1]]), d(p2[0], scs[p2[0]][1][p2[1]])))) for p1, p2 in exp)
    if got_desc != exp_desc:
        missing = [x for x in exp_desc if x not in got_desc][:3]
        extra = [x for x in got_desc if x not in exp_desc][:3]
        sig = "scan-missing-pair" if missing else ("scan-extra-pair" if extra else "scan-pair-multiplicity")
        ctx.violation(f"{sig}:{tag}", f"scan reports {len(got_desc)} pairs, reference {len(exp_desc)}; missing={missing} extra={extra}", case)
        return
    ctx.count("scan:in-process-" + ("shared" if tag == "shared-row-objects" else tag))


def check_scan(ctx, scs, via_cli, scratch, shared=False):
    from tola.assembly.assembly import Assembly

    ctx.case()
    exp = ref_scan(scs)
    case = {"kind": "scan", "scaffolds": scs, "via_cli": via_cli, "shared": shared}
    if exp:
        ctx.nontrivial(scs)
        ctx.count("scan:with-overlaps")
    else:
        ctx.count("scan:without-overlaps")
    if not via_cli:
        objs = build_scaffolds(scs)
        if shared:
            # API route only: ONE Fragment object in several row positions (the same contig placed twice by
            # code that re-uses row objects, as append_scaffold and the remapper do)
            first = {}
            nshared = 0
            for s_ in objs:
                for ri, r in enumerate(s_.rows):
                    if hasattr(r, "strand"):
                        k = (r.name, r.start, r.end, r.strand)
                        if k in first:
                            s_.rows[ri] = first[k]
                            nshared += 1
                        else:
                            first[k] = r
            if nshared:
                ctx.count("scan:one-object-in-several-rows")
            return check_scan_shared(ctx, scs, objs, exp, case)
        a = Assembly("a", scaffolds=objs)
        ident = {}
        for si, s in enumerate(objs):
            for ri, r in enumerate(s.rows):
                ident[id(r)] = (si, ri)
        try:
            got = a.find_overlapping_fragments()
        except Exception as e:  # noqa: BLE001
            ctx.violation("scan-raised", f"find_overlapping_fragments raised {type(e).__name__}: {e}", case)
            return
        got_pairs = []
        for (f1, s1), (f2, s2) in got or []:
            p1, p2 = ident.get(id(f1)), ident.get(id(f2))
            if p1 is None or p2 is None or objs[p1[0]] is not s1 or objs[p2[0]] is not s2:
                ctx.violation("scan-reports-foreign-object", f"pair {(str(f1), s1.name, str(f2), s2.name)} is not a fragment occurrence of its scaffold", case)
                return
            got_pairs.append(tuple(sorted((p1, p2))))
        ctx.count("scan:in-process")
    else:
        from click.testing import CliRunner
        from tola.assembly.format import format_agp
        from tola.assembly.scripts.asm_format import cli

        p = Path(scratch) / "qc.agp"
        with p.open("w") as fh:
            format_agp(Assembly("a", scaffolds=build_scaffolds(scs)), fh)
        if hash(str(scs)) % 7 == 3 and all(rows and rows[0][0] == "F" for _, rows in scs):
            # the same assembly given as TPF (written by the reference formatter)
            from vf.ref import tpf_ref

            p.unlink()
            p = Path(scratch) / "qc.tpf"
            p.write_text(tpf_ref.format({"header": [], "scaffolds": scs}))
            ctx.count("scan:cli-tpf-input")
        # the report does not depend on the output format asked for
        ofmt = [[], ["-f", "STR"], ["-f", "repr"], ["-f", "TPF"], []][hash(str(scs)) % 5]
        if ofmt:
            ctx.count("scan:cli-output-format:" + ofmt[1].upper())
        twice = hash(str(scs)) % 3 == 0
        if twice:
            # two input files whose names differ only in the directory (hap1/qc.agp hap2/qc.agp): each is reported
            # ... and, when the assembly can be written as TPF, the two files are of different formats (each is read
            # by the parser its own extension asks for)
            mixed = all(rows and rows[0][0] == "F" for _, rows in scs) and hash(str(scs)) % 2 == 0
            files_ = []
            for k_, sub in enumerate(("hap1", "hap2")):
                (Path(scratch) / sub).mkdir(exist_ok=True)
                for old_ in (Path(scratch) / sub).iterdir():
                    old_.unlink()
                if mixed and k_ == 1:
                    from vf.ref import agp_ref as _ar
                    from vf.ref import tpf_ref as _tr

                    other = "qc.tpf" if p.suffix == ".agp" else "qc.agp"
                    (Path(scratch) / sub / other).write_text((_tr if other.endswith(".tpf") else _ar).format({"header": [], "scaffolds": scs}))
                    files_.append(Path(scratch) / sub / other)
                    ctx.count("scan:cli-two-input-files-of-different-formats")
                else:
                    (Path(scratch) / sub / p.name).write_text(p.read_text())
                    files_.append(Path(scratch) / sub / p.name)
            ctx.count("scan:cli-same-stem-in-two-directories")
            res = CliRunner().invoke(cli, [str(files_[0]), str(files_[1]), "--qc-overlaps", *ofmt])
            exp = [(a_, b_) for a_, b_ in exp] * 2
        elif hash(str(scs)) % 2:
            res = CliRunner().invoke(cli, [str(p), "--qc-overlaps", *ofmt])
        else:
            ctx.count("scan:cli-stdin")
            res = CliRunner().invoke(cli, ["--qc-overlaps", "-i", "TPF" if p.suffix == ".tpf" else "AGP", *ofmt], input=p.read_text())
        if res.exit_code != 0:
            ctx.violation("qc-cli-failed", f"asm-format --qc-overlaps exit {res.exit_code}: {res.exception!r}", case)
            return
        err = res.stderr
        blocks = re.findall(r"\nOverlap:\n(\S+) (.+?):(\d+)-(\d+)\(([+\-.])\)[^\n]*\n(\S+) (.+?):(\d+)-(\d+)\(([+\-.])\)", err)
        if exp and "Overlaps detected in assembly" not in err:
            ctx.violation("qc-cli-silent", f"{len(exp)} overlapping pairs but no report on stderr", case)
            return
        # map reported (scaffold, name, start, end) back to occurrences (multiset comparison on descriptions)
        def desc(p):
            r = scs[p[0]][1][p[1]]
            return (scs[p[0]][0], r[1], r[2], r[3])

        exp_desc = sorted(tuple(sorted((desc(a), desc(b)))) for a, b in exp)
        got_desc = sorted(tuple(sorted(((b[0], b[1], int(b[2]), int(b[3])), (b[5], b[6], int(b[7]), int(b[8]))))) for b in blocks)
        if exp_desc != got_desc:
            missing = [x for x in exp_desc if x not in got_desc][:3]
            extra = [x for x in got_desc if x not in exp_desc][:3]
            sig = "qc-cli-missing-pair" if missing else ("qc-cli-extra-pair" if extra else "qc-cli-pair-multiplicity")
            ctx.violation(sig, f"stderr reports {len(got_desc)} pairs, expected {len(exp_desc)}; missing={missing} extra={extra}", case)
        ctx.count("scan:cli")
        return
    got_set = sorted(got_pairs)
    exp_set = sorted(tuple(sorted(p)) for p in exp)
    if got_set != exp_set:
        missing = [x for x in exp_set if x not in got_set][:3]
        extra = [x for x in got_set if x not in exp_set][:3]
        dup = len(got_set) != len(set(got_set))
        sig = "scan-missing-pair" if missing else ("scan-extra-pair" if extra else "scan-pair-reported-twice" if dup else "scan-differs")
        ctx.violation(
            sig,
            f"scan reports {len(got_set)} pairs, reference {len(exp_set)}; missing={missing} extra={extra}\n"
            + "\n".join(f"{n}: " + " | ".join(fmt_row(r) for r in rows) for n, rows in scs),
            case,
        )
    if not exp and got is not None:
        ctx.count("note:empty-result-not-None")
    if got_set == exp_set and not via_cli:
        # the same Assembly object scanned again after one of its scaffolds got another row (a copy of an
        # existing fragment: at least one new overlapping pair): the answer is that of the rows as they are now
        from tola.assembly.fragment import Fragment

        src = next((r for _, rows in scs for r in rows if r[0] == "F"), None)
        if src is not None:
            scs2 = [[n, [list(r) for r in rows]] for n, rows in scs]
            scs2[-1][1].append(["F", src[1], src[2], src[3], src[4], []])
            objs[-1].add_row(Fragment(src[1], src[2], src[3], src[4]))
            check_scan_shared(ctx, scs2, objs, ref_scan(scs2), {**case, "rescan": True}, a=a, tag="rescan-after-edit")
    if len(ctx.samples) < 2 and exp:
        ctx.sample({"scaffolds": [f"{n}: " + " | ".join(fmt_row(r) for r in rows) for n, rows in scs], "overlapping_pairs": sorted(exp)[:6]})


def run_scan(shard, ctx):
    scratch = os.environ.get("VERIF_SHARD_SCRATCH", ".")
    # one crowded assembly per shard: 40 mutually overlapping windows of one contig = 780 pairs, every one reported
    big = [["crowd", [["F", "ctgC", 1 + 10 * k, 1000 + 10 * k, 1 if k % 3 else -1, []] for k in range(40)]], ["other", [["F", "ctgD", 1, 50, 1, []]]]]
    check_scan(ctx, big, via_cli=True, scratch=scratch)
    check_scan(ctx, big, via_cli=False, scratch=scratch)
    ctx.count("scan:crowded-assembly-with-780-pairs")
    for i in range(shard["n"]):
        rng = rng_for(shard["seed"], "c19s", shard["index"], i)
        scs = gen_assembly(rng)
        check_scan(ctx, scs, via_cli=(i % 4 == 3), scratch=scratch, shared=(i % 4 == 1))


def run(shard, ctx):
    attach(ctx)
    {"exhaustive": run_exhaustive, "pairs": run_random_pairs, "scan": run_scan}[shard["kind"]](shard, ctx)
    for p in ("overlaps", "overlap_length", "abuts", "gap_between"):
        ctx.count(f"monitor_evals:{p}", contracts.evals(f"C19.{p}"))
    if shard["kind"] == "exhaustive":
        ctx.sample({"pair": [["c", 2, 5], ["c", 6, 7]], "expected": ref_pair(("c", 2, 5), ("c", 6, 7))})


def replay(case, ctx):
    attach(ctx)
    if case["kind"] == "pair":
        eval_pair(ctx, case["a"], case["b"])
    else:
        check_scan(ctx, case["scaffolds"], case.get("via_cli", False), os.environ.get("VERIF_SHARD_SCRATCH", "."), shared=case.get("shared", False))


def plan(tier, seed):
    sh = [{"kind": "exhaustive", "part": p, "nparts": 4, "top": 8 if tier == "quick" else 12} for p in range(4)]
    n, per = (4, 25000) if tier == "quick" else (8, 400000)
    sh += [{"kind": "pairs", "n": per} for _ in range(n)]
    n, per = (8, 1500) if tier == "quick" else (16, 12000)
    sh += [{"kind": "scan", "n": per} for _ in range(n)]
    return sh


def gates(c, tier):
    need = {
        "exhaustive:parts": 4,
        "scan:one-object-in-several-rows": 200,
        "scan:in-process-shared": 1000,
        "scan:in-process-rescan-after-edit": 2000,
        "scan:cli-same-stem-in-two-directories": 300,
        "scan:cli-two-input-files-of-different-formats": 50,
        "scan:cli-output-format:STR": 200,
        "scan:cli-tpf-input": 100,
        "scan:crowded-assembly-with-780-pairs": 4,
        "scan:cli-output-format:REPR": 200,
        "pairs:coordinates-beyond-2^53": 1000,
        "pairs:overlap": 1000,
        "pairs:abut": 500,
        "pairs:gap": 1000,
        "pairs:different-name": 1000,
        "scan:with-overlaps": 200,
        "scan:cli": 100,
        "scan:cli-stdin": 30,
        "scan:in-process": 500,
        "monitor_evals:overlaps": 10000,
        "monitor_evals:gap_between": 10000,
    }
    return [f"{k}>={v} (got {c.get(k, 0)})" for k, v in need.items() if c.get(k, 0) < v]


def summarize(c, tier):
    return {"exhaustive_subspace_complete": c.get("exhaustive:parts", 0) == 4}
