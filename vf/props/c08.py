"""C08  An unedited Pretext map reproduces the input assembly.

Workload: null maps (one whole-scaffold piece per input scaffold, unpainted and
untagged, or all painted) at every texel size with Pretext's rounding of
scaffold ends; oracle: identity of scaffolds by name + zero statistics.
"""

import math
import os
from pathlib import Path

from vf import workloads
from vf.core import rng_for, scaffold_len
from vf.gen import asm as gasm

ID = "C08"
LEVEL = "exploration"
RULE = (
    "case = (input assembly, null Pretext map, t): G-asm inputs (40% of them with scaffolds that begin / end with a gap, as N-runs at the ends of a FASTA "
    "record give) whose last contig is longer than ceil(t)+1 bp (DESIGN 5.3), plus sub-texel scaffolds; one whole-scaffold forward piece "
    "per scaffold with end floor(n*t), n = floor or ceil of length/t; any subset of sub-texel scaffolds absent; map "
    "unpainted (identity expected) or entirely painted (only names and order may change). Non-trivial = input with "
    ">=2 scaffolds or >=2 rows; distinct = distinct (input, map, t)."
)
ASSUMPTIONS = [
    "'last contig at least one texel long' is applied as length > ceil(t)+1 bp because the bait end floor(n*t) can undershoot by up to t+1 bp",
    "scaffold-terminal gaps of the input are not expected in the output (C07 forbids terminal gaps there): contents are compared after stripping them from the input side; a scaffold made only of N is left out of the inputs",
    "output order is compared by name (the output is written in the tool's sorted order); row order inside each scaffold is compared exactly",
]


def make_case(seed, shard_index, i):
    rng = rng_for(seed, "c08", shard_index, i)
    t = gasm.pick_texel(rng)
    hapnames = rng.random() < 0.15
    inp, labels = gasm.gen_input(rng, t, mode="fasta" if hapnames else rng.choice(["fasta", "tpf", "tpf"]), strands=rng.choice([(1,), (1, -1)]),
                                 terminal_gaps=not hapnames and rng.random() < 0.4)
    # scaffolds that start / end with a gap (N-runs at the ends of a FASTA record) keep everything but those
    # terminal gaps (C07 forbids terminal gaps in outputs); a scaffold made only of N has nothing to reproduce
    inp = [s for s in inp if any(r[0] == "F" for r in s[1])]
    labels.discard("in:gap-only-scaffold")
    if hapnames:
        # a single-haplotype assembly whose names carry the haplotype prefix, some with more than three parts
        for k, s_ in enumerate(inp):
            nm = rng.choice([f"HAP1_SCAFFOLD_{k + 1}", f"HAP1_SUPER_{k + 1}_unloc_1", f"HAP1_scaffold_x_{k + 1}", f"HAP1_ptg{k}l_{k + 1}"])
            s_[0] = nm
            s_[1] = [["F", nm, r[2], r[3], r[4], []] if r[0] == "F" else r for r in s_[1]]
        labels.add("null:haplotype-prefixed-names")
    rn = rng_for(seed, "c08-contig-names", shard_index, i)
    if not hapnames and "in:tpf" in labels and rn.random() < 0.15:
        # contig names of the kind polishing and scaffolding tools leave behind: letters, digits, underscore, suffix
        # (they look like an assembly-name prefix without being a haplotype name)
        fam = rn.choice(["contig%d_pilon", "chr%d_random", "ptg%dl_arrow", "utg%d_1x"])
        k_ = 0
        for s_ in inp:
            for r in s_[1]:
                if r[0] == "F":
                    k_ += 1
                    r[1] = fam % k_
        labels.add("null:contig-names-with-letters-digits-underscore-prefix")
    need = math.ceil(t) + 2
    for s in inp:
        r = [x for x in s[1] if x[0] == "F"][-1]
        ln = r[3] - r[2] + 1
        if ln < need:
            r[3] = r[2] + need - 1 + rng.randint(0, 40)
    # sub-texel scaffolds
    nsub = rng.choice([0, 0, 1, 2]) if t > 2 else 0
    for k in range(nsub):
        L = rng.randint(1, max(1, math.ceil(t) - 1))
        if L >= t:
            continue
        nm = f"tiny_{k + 1}" if not hapnames else f"HAP1_tiny_{k + 1}"
        # 1-3 contigs, abutting without a gap row or separated by small gaps, total length L < t
        rows = []
        left = L
        off = 0
        parts = rng.randint(1, 3)
        for j in range(parts):
            if left < 1:
                break
            ln = left if j == parts - 1 else rng.randint(1, left)
            if rows and rng.random() < 0.5 and left - ln >= 0 and ln > 1:
                g = rng.randint(1, ln - 1)
                rows.append(["G", g, rng.choice(["scaffold", "contig"])])
                ln -= g
                left -= g
            rows.append(["F", f"tctg{k}.{j}" if not hapnames else nm, off + 1, off + ln, rng.choice([1, -1]) if not hapnames else 1, []])
            off += ln + rng.choice([0, 0, 5])
            left -= ln
        if len([r for r in rows if r[0] == "F"]) > 1:
            labels.add("null:subtexel-multi-contig")
        inp.append([nm, rows])
        labels.add("null:subtexel-scaffold")
    painted = rng.random() < 0.5
    prefix = rng.choice(["SUPER_", "SUPER_", "CHR_", "RL", "Chr"]) if painted else "SUPER_"
    pt = []
    pieces = []
    for s in inp:
        L = scaffold_len(s)
        q = L / t
        n = math.floor(q) if rng.random() < 0.5 else math.ceil(q)
        if L < t:
            if rng.random() < 0.5:
                labels.add("null:subtexel-absent")
                continue
            n = 1
            labels.add("null:subtexel-present")
        elif n == math.floor(q) and math.floor(n * t) < L:
            labels.add("null:bait-undershoots")
        if math.floor(n * t) > L:
            labels.add("null:bait-overshoots")
        end = math.floor(n * t)
        if end < 1:
            continue
        # orientation '+', or '?' (unknown: legal in AGP, and not a request to reverse anything)
        strand = 0 if rng.random() < 0.15 else 1
        if strand == 0:
            labels.add("null:unknown-orientation-line")
        pt.append([f"Scaffold_{len(pt) + 1}", [["F", s[0], 1, end, strand, ["Painted"] if painted else []]]])
        pieces.append({"s": s[0], "start": 1, "end": end, "L": L})
    labels.add("null:painted" if painted else "null:unpainted")
    if prefix != "SUPER_":
        labels.add("null:non-default-prefix")
    if not pt:
        return None
    via = "agp" if rng.random() < 0.2 else False
    crlf = bool(via) and rng.random() < 0.5
    # other spellings of the same input text (drawn from a stream of their own)
    rv = rng_for(seed, "c08-text-variant", shard_index, i)
    extra = {}
    if not via and rv.random() < 0.15 and "in:leading-gap" not in labels:
        via = "tpf"
        labels.add("null:input-through-tpf-text")
        if rv.random() < 0.5:
            extra["tpf_variant"] = "gap-method-column"
            labels.add("null:tpf-gap-method-column")
    if via and float(t).is_integer() and rv.random() < 0.5:
        extra["texel_header_plain"] = True
        labels.add("null:texel-resolution-without-decimals")
    if via == "agp" and rv.random() < 0.6:
        extra["agp_variant"] = rv.choice(["v1.1-gaps", "component-types", "known-length-gaps"])
        labels.add(f"null:agp-{extra['agp_variant']}")
    return {"kind": "remap", "gen": "null", "t": t, "input": inp, "pretext": pt, "pieces": pieces, "prefix": prefix,
            "painted": painted, "hapnames": hapnames, "labels": sorted(labels | ({"null:pretext-text-with-crlf"} if crlf else set())), "via_text": via, "pretext_crlf": crlf, "id": [seed, shard_index, i], **extra}


def oracle(case, outcome, ctx):
    ctx.case()
    stripped = {k: v for k, v in case.items() if k != "labels"}
    desc = f"t={case['t']} painted={case['painted']}\ninput={case['input']}\npretext={case['pretext']}"
    if not outcome["ok"]:
        e = outcome["exc"]
        ctx.violation(f"null-map-raised-{e['type']}@{e['fn']}", f"{e['msg'][:300]}\n{desc}", stripped)
        return
    inp = case["input"]
    if len(inp) >= 2 or any(len(s[1]) >= 2 for s in inp):
        ctx.nontrivial([inp, case["pretext"], case["t"]])
    out = outcome["out"]
    keys = [k for k, _ in out]
    if case.get("hapnames"):
        # every name starts with HAP1_: the one output assembly is that haplotype's
        if len(keys) != 1 or str(keys[0]).lower() != "hap1":
            ctx.violation("haplotype-prefixed-input-split-over-assemblies", f"assembly keys {keys}\n{desc}", stripped)
            return
    elif keys != [None]:
        ctx.violation("other-output-assembly-produced", f"assembly keys {keys}\n{desc}\noutput={out}", stripped)
        return
    st = outcome["stats"]
    if (st["cuts"], st["breaks"], st["joins"]) != (0, 0, 0):
        ctx.violation("statistics-not-zero", f"{st}\n{desc}\noutput={out}", stripped)
        return
    scs = out[0][1]

    def sig(rows):
        rows = list(rows)
        while rows and rows[0][0] == "G":
            rows.pop(0)
        while rows and rows[-1][0] == "G":
            rows.pop()
        return [[*r[:5]] if r[0] == "F" else list(r) for r in rows]

    if not case["painted"]:
        a = {s[0]: sig(s[1]) for s in inp}
        b = {s[0]: sig(s[1]) for s in scs}
        if len(scs) != len(inp) or set(a) != set(b):
            ctx.violation("scaffold-set-differs", f"input {sorted(a)} output {[s[0] for s in scs]}\n{desc}", stripped)
            return
        for n in a:
            if a[n] != b[n]:
                ctx.violation("scaffold-content-differs", f"{n}: input {a[n]}\n output {b[n]}\n{desc}", stripped)
                return
        ctx.count("null-ok:unpainted")
    else:
        a = sorted(sig(s[1]) for s in inp)
        b = sorted(sig(s[1]) for s in scs)
        if a != b:
            ctx.violation("painted-content-differs", f"{desc}\noutput={out}", stripped)
            return
        in_map = {p["s"] for p in case["pieces"]}
        by_rows = {str(sig(s[1])): s[0] for s in inp}
        named = []
        for s in scs:
            src = by_rows[str(sig(s[1]))]
            if src in in_map:
                named.append((s[0], sum(r[3] - r[2] + 1 for r in s[1] if r[0] == "F")))
            elif s[0] != src and sum(1 for x in inp if sig(x[1]) == sig(s[1])) == 1:
                ctx.violation("absent-scaffold-renamed", f"{src} -> {s[0]}\n{desc}", stripped)
                return
        nums = []
        for nm, ln in named:
            pf = case.get("prefix", "SUPER_")
            if not nm.startswith(pf) or not nm[len(pf):].isdigit():
                ctx.violation("painted-name-not-prefix-rank", f"{nm}\n{desc}\noutput names={[s[0] for s in scs]}", stripped)
                return
            nums.append((int(nm[len(pf):]), ln))
        nums.sort()
        if [n for n, _ in nums] != list(range(1, len(nums) + 1)):
            ctx.violation("painted-ranks-have-holes", f"{nums}\n{desc}", stripped)
            return
        if any(x[1] < y[1] for x, y in zip(nums, nums[1:])):
            ctx.violation("painted-ranks-not-by-size", f"{nums}\n{desc}", stripped)
            return
        ctx.count("null-ok:painted")
    if len(ctx.samples) < 2 and len(inp) > 1:
        ctx.sample({"t": case["t"], "input": inp[:3], "pretext": case["pretext"][:3], "output_names": [s[0] for s in scs]})


def run(shard, ctx):
    for i in range(shard["n"]):
        case = make_case(shard["seed"], shard["index"], i)
        if case is None:
            continue
        for lab in case["labels"]:
            ctx.count(f"label:{lab}")
        oracle(case, workloads.run_case(case), ctx)
        if i % 25 == 0:
            check_cli(case, ctx, Path(os.environ.get("VERIF_SHARD_SCRATCH", ".")) / "cli")
        if i % 10 == 7 and "in:fasta" in case["labels"] and sum(scaffold_len(s_) for s_ in case["input"]) < 150_000:
            check_cli_fasta(case, ctx, Path(os.environ.get("VERIF_SHARD_SCRATCH", ".")) / "clifa")


def check_cli_fasta(case, ctx, scratch):
    """The null map through the CLI with the input given as FASTA (LF or CRLF) and FASTA output, twice: the second
    run finds the index cache of the first beside the FASTA.  Each time the output holds the input's sequences
    (record-terminal N runs aside, cf. the assumptions)."""
    import shutil

    from vf import cli_runs
    from vf.gen import pv as gpv
    from vf.ref import fasta_ref

    d = Path(scratch)
    if d.exists():
        shutil.rmtree(d)
    d.mkdir(parents=True)
    rng = rng_for(case["id"][0], "c08fa", case["id"][1], case["id"][2])
    crlf = rng.random() < 0.5
    fa = cli_runs.fasta_bytes_for(rng, case["input"], crlf=crlf)
    (d / "input.fa").write_bytes(fa)
    now = (d / "input.fa").stat().st_mtime
    os.utime(d / "input.fa", (now - 1000, now - 1000))
    (d / "pretext.agp").write_text(gpv.pretext_agp_text(case["pretext"], case["t"]))
    cr = {"dir": d, "assembly_file": d / "input.fa", "pretext_file": d / "pretext.agp", "prefix": case["prefix"], "t": case["t"], "input": case["input"],
          "pretext": case["pretext"], "labels": case["labels"]}
    want = sorted(r["seq"].strip(b"N") for r in fasta_ref.parse(fa))
    try:
        for which in ("cold-cache", "warm-cache"):
            ctx.case()
            cli_runs.clear_outputs(cr)
            from vf.props.c17 import patched_buffer

            # (a small indexer buffer in two cases out of three: records longer than the buffer, N runs that end on
            #  a buffer boundary - what chromosome-sized records meet at the default 250 000)
            with patched_buffer([7, 64, 250000][case["id"][2] % 3]):
                res = cli_runs.run_pretext_to_asm(cr, out_name="out.fa")
            rc = {**cli_runs.case_of(cr), "painted": case["painted"], "hapnames": case["hapnames"], "fasta_leg": which}
            if res["exit_code"] != 0:
                ctx.violation("cli-null-map-failed:fasta-input", f"{which}: exit {res['exit_code']}: {res['exception']!r} {res['stderr'][-300:]}", rc)
                return
            outs = sorted(n for n in cli_runs.output_files(cr) if n.endswith(".fa"))
            if len(outs) != 1:
                ctx.violation("cli-other-output-assembly-produced:fasta-input", f"{which}: {outs}", rc)
                return
            got = sorted(seq for _, seq, _ in fasta_ref.split_records((d / outs[0]).read_bytes()))
            if got != want:
                k = next((j for j in range(min(len(got), len(want))) if got[j] != want[j]), min(len(got), len(want)))
                ctx.violation(f"cli-sequence-differs-from-input-fasta:{which}", f"{len(got)} records vs {len(want)}; first difference: got {got[k][:80] if k < len(got) else None!r} want {want[k][:80] if k < len(want) else None!r}", rc)
                return
            # the AGP written beside it holds the input's rows (contigs and gaps as the FASTA has them)
            from vf.ref import agp_ref

            def sig(rows):
                rows = list(rows)
                while rows and rows[0][0] == "G":
                    rows.pop(0)
                while rows and rows[-1][0] == "G":
                    rows.pop()
                return [[*r[:5]] if r[0] == "F" else [r[0], r[1]] for r in rows]

            beside = d / (outs[0][:-3] + ".agp")
            rows_out = sorted(sig(s_[1]) for s_ in agp_ref.parse(beside.read_text())[0]["scaffolds"]) if beside.exists() else None
            # (the input as the FASTA holds it: maximal ACGT runs and the runs between them)
            rows_in = sorted(sig([list(x) for x in fasta_ref.tiling(r_)]) for r_ in fasta_ref.parse(fa))
            if rows_out != rows_in:
                ctx.violation(f"cli-rows-differ-from-input-fasta:{which}", f"AGP beside {outs[0]}: {str(rows_out)[:300]}\ninput: {str(rows_in)[:300]}", rc)
                return
            ctx.count(f"cli-null-fasta-ok:{which}" + (":crlf" if crlf else ""))
    finally:
        shutil.rmtree(d, ignore_errors=True)


def check_cli(case, ctx, scratch):
    """The same null map through the pretext-to-asm CLI (AGP in, AGP out): it completes, writes exactly one
    assembly file - the input's scaffolds - and the info YAML / log report zero cuts, breaks and joins."""
    import re
    import shutil

    import yaml

    from vf import cli_runs
    from vf.gen import pv as gpv
    from vf.ref import agp_ref

    ctx.case()
    d = Path(scratch)
    if d.exists():
        shutil.rmtree(d)
    d.mkdir(parents=True)
    (d / "input.agp").write_text(agp_ref.format({"header": [], "scaffolds": case["input"]}))
    (d / "pretext.agp").write_text(gpv.pretext_agp_text(case["pretext"], case["t"]))
    cr = {"dir": d, "assembly_file": d / "input.agp", "pretext_file": d / "pretext.agp", "prefix": case["prefix"], "t": case["t"], "input": case["input"],
          "pretext": case["pretext"], "labels": case["labels"]}
    res = cli_runs.run_pretext_to_asm(cr, out_name="out.agp")
    rc = {**cli_runs.case_of(cr), "painted": case["painted"], "hapnames": case["hapnames"]}
    ctx.nontrivial(rc["files"])
    try:
        if res["exit_code"] != 0:
            ctx.violation("cli-null-map-failed", f"exit {res['exit_code']}: {res['exception']!r} {res['stderr'][-300:]}", rc)
            return
        files = cli_runs.output_files(cr)
        asm_files = sorted(n for n in files if n.endswith(".agp"))
        if len(asm_files) != 1:
            ctx.violation("cli-other-output-assembly-produced", f"assembly files {asm_files}", rc)
            return
        got = agp_ref.parse(files[asm_files[0]].decode())[0]["scaffolds"]

        def sig(rows):
            rows = [r for r in rows]
            while rows and rows[0][0] == "G":
                rows.pop(0)
            while rows and rows[-1][0] == "G":
                rows.pop()
            return [[*r[:5]] if r[0] == "F" else list(r) for r in rows]

        a = sorted(sig(s_[1]) for s_ in case["input"])
        b = sorted(sig(s_[1]) for s_ in got)
        if a != b or (not case["painted"] and sorted(s_[0] for s_ in got) != sorted(s_[0] for s_ in case["input"])):
            ctx.violation("cli-scaffold-content-differs", f"file {asm_files[0]}: {[s_[0] for s_ in got]} vs input {[s_[0] for s_ in case['input']]}", rc)
            return
        info = yaml.safe_load(files["out.info.yaml"].decode()) if "out.info.yaml" in files else None
        log = files.get("out.log", b"").decode()
        m = re.search(r"Curation made (\d+) cuts? in (?:a )?contigs?, (\d+) breaks? at (?:a )?gaps? and (\d+) joins?", log)
        if info is None or m is None:
            ctx.violation("cli-statistics-not-reported", f"info.yaml present={info is not None}, 'Curation made' line in log={m is not None}; files={sorted(files)}", rc)
            return
        per = list((info.get("assemblies") or {}).values())
        tot = [sum(int(p_.get(k, 0)) for p_ in per if isinstance(p_, dict)) for k in ("manual_breaks", "manual_joins")]
        if tuple(int(x) for x in m.groups()) != (0, 0, 0) or any(tot) or info.get("manual_haplotig_removals") != 0:
            ctx.violation("cli-statistics-not-zero", f"log {m.groups()}, info.yaml {info}", rc)
            return
        ctx.count("cli-null-ok:" + ("painted" if case["painted"] else "unpainted"))
    finally:
        shutil.rmtree(d, ignore_errors=True)


def replay(case, ctx):
    if case.get("kind") == "cli":
        import base64

        inp = agp_ref_parse(base64.b64decode(case["files"]["input.agp"]).decode())
        c2 = {"input": case["input"], "pretext": case["pretext"], "t": case["t"], "prefix": case.get("prefix", "SUPER_"), "labels": case.get("labels") or [],
              "painted": case.get("painted", False), "hapnames": case.get("hapnames", False)}
        return check_cli(c2, ctx, Path(os.environ.get("VERIF_SHARD_SCRATCH", ".")) / "replay")
    oracle(case, workloads.run_case(case), ctx)


def agp_ref_parse(text):
    from vf.ref import agp_ref

    return agp_ref.parse(text)[0]["scaffolds"]


def plan(tier, seed):
    n, per = (16, 2500) if tier == "quick" else (16, 20000)
    return [{"kind": "null", "n": per} for _ in range(n)]


def gates(c, tier):
    need = {
        "null-ok:unpainted": 1500,
        "null-ok:painted": 1500,
        "cli-null-ok:painted": 300,
        "cli-null-ok:unpainted": 300,
        "label:null:bait-undershoots": 500,
        "label:null:unknown-orientation-line": 1000,
        "label:null:pretext-text-with-crlf": 1000,
        "label:null:bait-overshoots": 500,
        "label:null:subtexel-absent": 100,
        "label:null:subtexel-present": 100,
        "label:null:non-default-prefix": 200,
        "label:null:haplotype-prefixed-names": 300,
        "label:null:subtexel-multi-contig": 50,
        "label:in:both-strands": 500,
        "label:in:gapless-junction": 300,
        "label:in:leading-gap": 300,
        "label:in:trailing-gap": 300,
        "label:null:input-through-tpf-text": 1000,
        "label:null:tpf-gap-method-column": 500,
        "label:null:agp-known-length-gaps": 300,
        "label:null:texel-resolution-without-decimals": 300,
        "cli-null-fasta-ok:warm-cache": 100,
        "label:null:contig-names-with-letters-digits-underscore-prefix": 500,
        "cli-null-fasta-ok:warm-cache:crlf": 30,
    }
    return [f"{k}>={v} (got {c.get(k, 0)})" for k, v in need.items() if c.get(k, 0) < v]
