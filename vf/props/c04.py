"""C04  FASTA index and derived assembly describe the file exactly.

Oracle: vf.ref.fasta_ref (whole-file in-memory model).  Observed: return value
of index_fasta_file for many buffer sizes, FastaIndex.sequence_bytes /
get_fasta_seq, the .fai/.agp written by auto_load and what a reload returns,
the derived assembly streamed back.
"""

import base64
import io
import os
from pathlib import Path

from vf.core import dump_row, rng_for
from vf.gen import fasta as gfa
from vf.ref import fasta_ref

ID = "C04"
LEVEL = "exploration"
RULE = (
    "case = one generated FASTA byte string (1-5 records; widths 1..80; lengths incl. w-1,w,w+1,2w,3w; alphabets "
    "ACGT/+N/mixed case/IUPAC/other symbols; N-runs leading, trailing, internal, crossing line ends; LF or CRLF; "
    "final newline present or absent; descriptions) x one buffer size from {1,2,3,5,7,11,59,60,61,w-1,w,w+1,250000}; "
    "random access is checked for ALL (a,b) on records <=40 residues (exhaustive sub-space) and 30 sampled intervals "
    "otherwise; plus malformed files (duplicate names, no record). Non-trivial = indexable file; distinct = distinct "
    "(file bytes, buffer)."
)
ASSUMPTIONS = [
    "records have >=1 residue and no blank lines; bytes-per-line uses the header line's terminator when the record has a single unterminated line",
    "gap type of derived gaps is not part of the property (only length and position)",
]


def _close(fi):
    fh = fi.__dict__.get("fasta_fileandle")
    if fh is not None:
        fh.close()
        del fi.__dict__["fasta_fileandle"]


def check_file(ctx, data, bs, scratch, roundtrip=True, tag="", other=None):
    from tola.assembly.assembly import Assembly
    from tola.assembly.fragment import Fragment
    from tola.fasta.index import FastaIndex, index_fasta_file
    from tola.fasta.stream import FastaStream

    ctx.case()
    case = {"kind": "fasta", "data": base64.b64encode(data).decode(), "buffer": bs}
    p = Path(scratch) / "t.fa"
    for q in (p, Path(str(p) + ".fai"), Path(str(p) + ".agp")):
        if q.exists():
            q.unlink()
    p.write_bytes(data)
    try:
        recs = fasta_ref.parse(data)
        malformed = None
    except fasta_ref.Malformed as m:
        recs = None
        malformed = str(m)
    try:
        idx, asm = index_fasta_file(p, bs)
    except Exception as e:  # noqa: BLE001
        if malformed:
            ctx.count(f"malformed-rejected:{malformed}:{type(e).__name__}")
            return
        ctx.violation(f"indexing-raised-{type(e).__name__}", f"index_fasta_file raised {type(e).__name__}: {e}\nfile={data[:300]!r} buffer={bs}", case)
        return
    if malformed:
        ctx.violation(f"malformed-accepted-{malformed.replace(' ', '-')}", f"file with {malformed} was indexed without error: {data[:200]!r}", case)
        return
    ctx.nontrivial([case["data"], bs])
    cls = []
    if b"\r\n" in data:
        cls.append("crlf")
    if not data.endswith(b"\n"):
        cls.append("no-final-newline")
    for c in cls:
        ctx.count(f"class:{c}")
    # 1. quintuples
    got = [(n, i.length, i.file_offset, i.residues_per_line, i.max_line_length) for n, i in idx.items()]
    exp = [fasta_ref.quintuple(r) for r in recs]
    if got != exp:
        bad = next((g, e) for g, e in zip(got + [None] * len(exp), exp + [None] * len(got)) if g != e)
        what = "record-set"
        if bad[0] and bad[1] and bad[0][0] == bad[1][0]:
            what = ["name", "length", "offset", "residues-per-line", "bytes-per-line"][next(k for k in range(5) if bad[0][k] != bad[1][k])]
        sig = f"quintuple-{what}" + ("-no-final-newline" if "no-final-newline" in cls else "")
        ctx.violation(sig, f"index {bad[0]} expected {bad[1]}\nfile={data[:300]!r} buffer={bs}", case)
        return
    # 2. derived assembly tiles each record
    if [s.name for s in asm.scaffolds] != [r["name"] for r in recs]:
        ctx.violation("assembly-scaffold-set", f"{[s.name for s in asm.scaffolds]}", case)
        return
    for rec, sc in zip(recs, asm.scaffolds):
        want = fasta_ref.tiling(rec)
        have = [("F", r.name, r.start, r.end, r.strand) if not hasattr(r, "gap_type") else ("G", r.length) for r in sc.rows]
        if have != want:
            ctx.violation("assembly-tiling", f"record {rec['name']} seq={rec['seq'][:120]!r}\nrows {have}\nwant {want}\nbuffer={bs}", case)
            return
        ctx.count("runs:rows", len(want))
        if any(len(x) > bs for x in rec["seq"].replace(b"N", b" ").split()):
            ctx.count("class:run-longer-than-buffer")
    # 3. random access
    fi = FastaIndex(p, bs)
    fi.index, fi.assembly = idx, asm
    try:
        for rec in recs:
            L = len(rec["seq"])
            info = idx[rec["name"]]
            if L <= 40:
                pairs = [(a, b) for a in range(1, L + 1) for b in range(a, L + 1)]
                ctx.count("random-access:records-exhaustive")
            else:
                rng = rng_for(L, rec["name"], bs)
                w = rec["rpl"]
                pairs = []
                for _ in range(30):
                    a = min(L, max(1, rng.choice([1, w, w + 1, L, rng.randint(1, L), w * rng.randint(0, L // w) + rng.choice([0, 1])])))
                    b = min(L, max(a, rng.choice([a, L, a + w - 1, a + w, rng.randint(a, L)])))
                    pairs.append((a, b))
                if L > 2**20 + 10:
                    # unwrapped chromosome: around the 1 MiB mark and beyond
                    pairs += [(2**20 - 2, 2**20 + 5), (2**20, 2**20), (2**20 + 1, 2**20 + 1), (2**20 + 1, L), (L - 3, L)]
                    ctx.count("class:sequence-line-longer-than-1MiB")
            for a, b in pairs:
                g = fi.sequence_bytes(info, a, b).getvalue()
                ctx.count("random-access:intervals")
                if g != rec["seq"][a - 1 : b]:
                    ctx.violation("random-access", f"{rec['name']}:{a}-{b} gave {g[:80]!r} expected {rec['seq'][a - 1:b][:80]!r} rpl={rec['rpl']} bpl={rec['bpl']}", case)
                    return
            # the chunked route used by the stream writer, for every orientation a row can have
            for a, b in pairs[:: max(1, len(pairs) // 12)]:
                for strand in (1, 0, -1):
                    chunks = list(fi.get_sequence_iter(Fragment(rec["name"], a, b, strand)))  # all fetched, then read
                    if len(chunks) > 1:
                        ctx.count("random-access:chunked:several-chunks-held")
                    g = b"".join(c.getvalue() for c in chunks)
                    want_g = rec["seq"][a - 1 : b] if strand != -1 else fasta_ref.revcomp(rec["seq"][a - 1 : b])
                    ctx.count(f"random-access:chunked:strand{strand}")
                    if g != want_g:
                        ctx.violation(f"random-access-chunked:strand{strand}", f"{rec['name']}:{a}-{b} strand {strand} gave {g[:80]!r} expected {want_g[:80]!r}", case)
                        return
            if fi.get_fasta_seq(rec["name"]).sequence != rec["seq"]:
                ctx.violation("get-fasta-seq", f"whole record {rec['name']} differs", case)
                return
        # 3b. whole records through the FastaSeq objects (all_fasta_seq / fasta_bytes / str)
        seqs = list(fi.all_fasta_seq())
        if [q.name for q in seqs] != [r["name"] for r in recs] or any(q.sequence != r["seq"] or q.length != len(r["seq"]) for q, r in zip(seqs, recs)):
            ctx.violation("all-fasta-seq", f"records {[q.name for q in seqs][:5]} vs {[r['name'] for r in recs][:5]}", case)
            return
        for q, r in zip(seqs[:3], recs[:3]):
            for w in (60, max(1, r["rpl"]), 7):
                want_b = fasta_ref.wrap(r["name"], r["seq"], w)
                if q.fasta_bytes(w) != want_b or q.__str__(w) != want_b.decode("latin-1"):
                    ctx.violation("fastaseq-record-text", f"{r['name']} width {w}: {q.fasta_bytes(w)[:120]!r} expected {want_b[:120]!r}", case)
                    return
            ctx.count("fastaseq:records-printed")
        # 4. stream the derived assembly back
        out = io.BytesIO()
        FastaStream(out, fi).write_assembly(asm)
        want = b"".join(fasta_ref.wrap(r["name"], fasta_ref.masked(r)) for r in recs)
        if out.getvalue() != want:
            ctx.violation("stream-back", f"streaming the derived assembly does not reproduce the records (non-ACGT as N)\n got {out.getvalue()[:200]!r}\nwant {want[:200]!r}", case)
            return
    finally:
        _close(fi)
    # 5. cache files and reload
    if roundtrip:
        now = p.stat().st_mtime
        os.utime(p, (now - 100, now - 100))
        f1 = FastaIndex(p, bs)
        try:
            f1.auto_load()
        except Exception as e:  # noqa: BLE001 - a well-formed file must index through the caching route too
            ctx.violation(f"auto-load-raised-{type(e).__name__}", f"FastaIndex.auto_load() on a well-formed file (in {p.parent}): {type(e).__name__}: {e}", case)
            return
        fai_txt = Path(str(p) + ".fai").read_text()
        want_fai = "".join("\t".join(str(x) for x in fasta_ref.quintuple(r)) + "\n" for r in recs)
        if fai_txt != want_fai:
            ctx.violation("fai-file-content", f"{fai_txt!r} expected {want_fai!r}", case)
            return
        f2 = FastaIndex(p, bs)
        try:
            f2.auto_load()
        except Exception as e:  # noqa: BLE001 - the cache the tool has just written must be readable by the tool
            ctx.violation(f"reloading-own-cache-raised-{type(e).__name__}", f"second auto_load() (from the cache files): {type(e).__name__}: {e}", case)
            return
        a1 = [[s.name, [dump_row(r) for r in s.rows]] for s in f1.assembly.scaffolds]
        a2 = [[s.name, [dump_row(r) for r in s.rows]] for s in f2.assembly.scaffolds]
        i2 = [(n, i.length, i.file_offset, i.residues_per_line, i.max_line_length) for n, i in f2.index.items()]
        if i2 != exp or a1 != a2:
            ctx.violation("reloaded-cache-differs", f"index {i2} vs {exp}; assembly equal={a1 == a2}", case)
            return
        ctx.count("cache-roundtrip")
        if other is not None:
            # 6. the file is replaced by another one whose time stamp equals that of the cache files
            # (cp -p, rsync -t, coarse clocks): what a new object answers must describe the new file
            try:
                recs2 = fasta_ref.parse(other)
            except fasta_ref.Malformed:
                recs2 = None
            if recs2 and other != data:
                p.write_bytes(other)
                mt = max(Path(str(p) + sfx).stat().st_mtime_ns for sfx in (".fai", ".agp"))
                for q in (p, Path(str(p) + ".fai"), Path(str(p) + ".agp")):
                    os.utime(q, ns=(mt, mt))
                f3 = FastaIndex(p, bs)
                try:
                    f3.auto_load()
                except Exception as e:  # noqa: BLE001
                    ctx.violation(f"auto-load-raised-{type(e).__name__}", f"auto_load() after the file was replaced: {type(e).__name__}: {e}", {**case, "other": base64.b64encode(other).decode()})
                    return
                i3 = [(n, i.length, i.file_offset, i.residues_per_line, i.max_line_length) for n, i in f3.index.items()]
                exp3 = [tuple(fasta_ref.quintuple(r)) for r in recs2]
                _close(f3)
                if i3 != exp3:
                    ctx.violation("index-of-replaced-file-with-equal-timestamp", f"index {i3[:4]} expected {exp3[:4]}", {**case, "other": base64.b64encode(other).decode()})
                    return
                ctx.count("cache-replaced-file-equal-mtime")
    ctx.count("files:ok")
    if len(ctx.samples) < 2 and len(recs) > 1:
        ctx.sample({"file": data[:400].decode("latin-1"), "buffer": bs, "index": exp, "rows_first_record": [list(x) for x in fasta_ref.tiling(recs[0])][:8]})


def malformed_file(rng):
    m = rng.random()
    if m < 0.4:
        d, meta = gfa.gen_fasta(rng, nrec=rng.randint(2, 4))
        # duplicate a name
        names = [n for n, _ in meta["records"]]
        return d.replace(b">" + names[-1].encode(), b">" + names[0].encode(), 1) if names[0] != names[-1] and (b"> " not in d) else b">a\nAC\n>a\nGT\n"
    if m < 0.6:
        # a name comes twice and one of its records has no sequence lines at all (its stored length is 0)
        nl = rng.choice([b"\n", b"\n", b"\r\n"])
        body = lambda: rng.choice([b"", b"", b"ACGT" + nl, b"GGNNCC" + nl + b"TT" + nl])  # noqa: E731
        recs = [b">dup" + rng.choice([b"", b" first"]) + nl + rng.choice([b"", body()]), b">other" + nl + b"GGNNCC" + nl, b">dup" + nl + body()]
        if rng.random() < 0.3:
            recs.insert(rng.randint(0, 2), b">third" + nl + b"AC" + nl)
        d = b"".join(recs)
        return d if rng.random() < 0.7 or not d.endswith(nl) else d[: -len(nl)]
    return rng.choice([b"", b"\n", b"\n\n", b"\r\n"])


def buffers(rng, meta):
    w = rng.choice(meta["widths"])
    L = len(rng.choice(meta["records"])[1])
    return rng.choice([1, 2, 3, 5, 7, 11, 59, 60, 61, max(1, w - 1), w, w + 1, max(1, L - 1), L, L + 1, 250000])


def run(shard, ctx):
    scratch = os.environ.get("VERIF_SHARD_SCRATCH", ".")
    for i in range(shard["n"]):
        rng = rng_for(shard["seed"], "c04", shard["index"], i)
        if i % 25 == 24:
            check_file(ctx, malformed_file(rng), rng.choice([1, 7, 250000]), scratch)
            continue
        if i == 1 and shard["index"] % 4 == 0:
            # one very long sequence on a single line (an unwrapped chromosome), followed by another record
            big = bytes(rng.choice(b"ACGT") for _ in range(4096)) * rng.randint(257, 300)
            cut = rng.randint(2**20 - 5000, 2**20 + 5000)
            big = big[:cut] + b"N" * rng.randint(1, 300) + big[cut:]
            data = b">big one\n" + big + rng.choice([b"\n", b"\r\n"]) + b">after\nACGTNNAC\nGT\n"
            check_file(ctx, data, rng.choice([1000, 65536, 250000]), scratch, roundtrip=True)
            continue
        if i == 2 and shard["index"] % 4 == 1:
            # a few thousand short records (every record of the file has its line in the cache, whatever their number)
            n_ = rng.randint(2001, 2400)
            data = b"".join(b">s%05d\n" % k + rng.choice([b"ACGTAC", b"ACNNGT", b"GGGTTTAAAC"]) + b"\n" for k in range(n_))
            ctx.count("class:more-than-2000-records")
            check_file(ctx, data, 250000, scratch, roundtrip=True)
            continue
        if i == 3 and shard["index"] % 16 == 2:
            # tens of thousands of records: the cache's .fai passes 1 MiB and must still be read back whole
            data = b"".join(b">s%05d\n" % k + (b"AC" if k % 3 else b"ANNG") + b"\n" for k in range(60000 + rng.randint(0, 999)))
            ctx.count("class:fai-larger-than-1MiB")
            check_file(ctx, data, 250000, scratch, roundtrip=True)
            continue
        data, meta = gfa.gen_fasta(rng)
        check_file(ctx, data, buffers(rng, meta), scratch, roundtrip=(i % 3 == 0), other=gfa.gen_fasta(rng)[0] if i % 6 == 0 else None)


def replay(case, ctx):
    check_file(ctx, base64.b64decode(case["data"]), case["buffer"], os.environ.get("VERIF_SHARD_SCRATCH", "."),
               other=base64.b64decode(case["other"]) if case.get("other") else None)


def plan(tier, seed):
    n, per = (16, 1200) if tier == "quick" else (16, 20000)
    return [{"kind": "fasta", "n": per} for _ in range(n)]


def gates(c, tier):
    need = {
        "files:ok": 2000,
        "class:crlf": 300,
        "class:no-final-newline": 300,
        "class:run-longer-than-buffer": 100,
        "random-access:records-exhaustive": 500,
        "random-access:intervals": 50000,
        "random-access:chunked:strand0": 5000,
        "cache-roundtrip": 300,
        "class:sequence-line-longer-than-1MiB": 2,
        "class:more-than-2000-records": 2,
        "class:fai-larger-than-1MiB": 1,
        "cache-replaced-file-equal-mtime": 200,
    }
    out = [f"{k}>={v} (got {c.get(k, 0)})" for k, v in need.items() if c.get(k, 0) < v]
    if not any(k.startswith("malformed-rejected:duplicate") for k in c):
        out.append("malformed-rejected:duplicate names >= 1")
    if not any(k.startswith("malformed-rejected:no records") for k in c):
        out.append("malformed-rejected:no records >= 1")
    return out
