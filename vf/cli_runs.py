"""Cases for the command-line tools: directories with real input files, in-process or
subprocess invocation of pretext-to-asm / asm-format, replayable serialisation."""

import base64
import os
import shutil
import subprocess
from pathlib import Path

from vf import env
from vf.core import rng_for
from vf.gen import asm as gasm
from vf.gen import pv as gpv
from vf.gen import tag as gtag
from vf.ref import agp_ref, tpf_ref


def fasta_bytes_for(rng, scaffolds, width=None, crlf=False):
    """FASTA whose derived assembly is exactly `scaffolds` (fasta-like: contig = ACGT run, gap = N run)."""
    out = b""
    nl = b"\r\n" if crlf else b"\n"
    for name, rows in scaffolds:
        seq = b""
        for r in rows:
            if r[0] == "G":
                seq += b"N" * r[1]
            else:
                seq += bytes(rng.choice(b"ACGTacgt" if rng.random() < 0.2 else b"ACGT") for _ in range(r[3] - r[2] + 1))
        w = width or rng.choice([60, 60, 80, 7, 61])
        out += b">" + name.encode() + nl + nl.join(seq[i : i + w] for i in range(0, len(seq), w)) + nl
    return out


def make_maps(rng, t, inp, tagged):
    """Returns (pretext scaffolds, design-or-None, pieces, labels)."""
    if tagged:
        pt, design = gtag.gen_single(rng, t, inp)
        return pt, design, design["pieces"], set(design["labels"])
    pt, pieces, labels = gpv.gen_pv_case(rng, t, inp)
    return pt, None, pieces, labels


def rename_scaffolds(inp, pt, mapping):
    """rename input scaffolds (and their same-named contigs, and the Pretext rows that point at them)"""
    for s in inp:
        old = s[0]
        if old in mapping:
            s[0] = mapping[old]
        for r in s[1]:
            if r[0] == "F" and r[1] in mapping:
                r[1] = mapping[r[1]]
    for s in pt:
        for r in s[1]:
            if r[0] == "F" and r[1] in mapping:
                r[1] = mapping[r[1]]


def fasta_case(rng, d, tagged=False, two_hap=False, t=None, region_names=False, tiny_split=False):
    d = Path(d)
    d.mkdir(parents=True, exist_ok=True)
    t = t or (rng.choice([10.0, 33.333333, 100.0]) if tiny_split else gasm.pick_texel(rng, small=True))
    design = None
    if two_hap:
        res = None
        while res is None:
            res = gtag.gen_two_hap(rng, t)
        inp, pt, design = res
        labels = set(design["labels"])
        pieces = design["pieces"]
    else:
        inp, l_in = gasm.gen_input(rng, t, mode="fasta", n_scaff=rng.randint(1, 6), max_contigs=6, max_texels=40)
        pt, design, pieces, labels = make_maps(rng, t, inp, tagged)
        labels |= l_in
        if region_names:
            # record names of the kind `samtools faidx` gives to extracted regions: chr7:1001-1200
            mp = {s[0]: f"chr{k + 1}:{1000 * k + 1}-{1000 * k + 900}" for k, s in enumerate(inp) if rng.random() < 0.6}
            rename_scaffolds(inp, pt, mp)
            for pc in pieces or []:
                if pc.get("s") in mp:
                    pc["s"] = mp[pc["s"]]
            labels.add("in:region-style-names")
    if tiny_split and t >= 4:
        # hostile extra: a one-contig record between one and two texels long, cut in PretextView into two
        # pieces that are both shorter than a texel; the shorter one is set aside as a haplotig (no longer a
        # PretextView-model map: the run may refuse it, and the pieces' oracles do not cover it)
        ln = rng.randint(int(t) + 2, int(2 * t) - 1)
        lo, hi = max(1, int(ln - t) + 1), int(t) - 1 if t == int(t) else int(t)
        k = rng.randint(lo, max(lo, hi))
        k = min(k, ln - k) if rng.random() < 0.7 else k
        if 1 <= k < t and ln - k < t:
            nm = f"tiny_{len(inp) + 1}"
            inp.append([nm, [["F", nm, 1, ln, 1, []]]])
            a, b = [["F", nm, 1, k, 1, ["Haplotig"]]], [["F", nm, k + 1, ln, 1, []]]
            if rng.random() < 0.5:
                a, b = [["F", nm, 1, ln - k, 1, []]], [["F", nm, ln - k + 1, ln, 1, ["Haplotig"]]]
            pt.append([f"Scaffold_{len(pt) + 1}", a])
            pt.append([f"Scaffold_{len(pt) + 1}", b])
            labels.add("hostile:sub-texel-contig-cut-in-two")
    fa = fasta_bytes_for(rng, inp, crlf=rng.random() < 0.1)
    import zlib

    if zlib.crc32(fa) % 6 == 0:
        # the last line of the file is not terminated (decided from the content: no draw from the case's stream)
        fa = fa[: -2 if fa.endswith(b"\r\n") else -1]
        labels.add("in:fasta-without-final-newline")
    (d / "input.fa").write_bytes(fa)
    (d / "pretext.agp").write_text(gpv.pretext_agp_text(pt, t))
    now = (d / "input.fa").stat().st_mtime
    os.utime(d / "input.fa", (now - 1000, now - 1000))
    return {
        "dir": d, "assembly_file": d / "input.fa", "pretext_file": d / "pretext.agp", "fasta_bytes": fa,
        "t": t, "input": inp, "pretext": pt, "design": design, "pieces": pieces, "labels": sorted(labels),
        "prefix": (design or {}).get("prefix", "SUPER_"),
    }


def text_case(rng, d, fmt="tpf", tagged=False, two_hap=False, t=None, mode=None, strands=None, unprefixed=False, primary=None, nhap=None, contig_level_null=False):
    d = Path(d)
    d.mkdir(parents=True, exist_ok=True)
    t = t or gasm.pick_texel(rng)
    design = None
    if nhap:
        res = None
        while res is None:
            res = gtag.gen_multi_hap_primary(rng, t, nhap)
        inp, pt, design = res
        labels = set(design["labels"])
        pieces = design["pieces"]
    elif two_hap:
        res = None
        while res is None:
            res = gtag.gen_two_hap(rng, t, unprefixed=unprefixed and (primary or rng.random() < 0.7), primary=primary)
        inp, pt, design = res
        labels = set(design["labels"])
        pieces = design["pieces"]
    elif contig_level_null:
        # a contig-level assembly (every scaffold is one contig: no adjacency anywhere) under a map that leaves
        # every scaffold whole, unpainted and untagged: nothing to count
        from vf.core import scaffold_len

        inp, l_in = gasm.gen_input(rng, t, mode=mode or rng.choice(["tpf", "fasta"]), strands=strands, max_contigs=1)
        pt = [[f"Scaffold_{k + 1}", [["F", s_[0], 1, scaffold_len(s_), 1, []]]] for k, s_ in enumerate(inp)]
        pieces = None
        labels = l_in | {"null:contig-level-input"}
    else:
        inp, l_in = gasm.gen_input(rng, t, mode=mode or rng.choice(["tpf", "shared", "fasta"]), strands=strands)
        pt, design, pieces, labels = make_maps(rng, t, inp, tagged)
        labels |= l_in
    asm = {"header": [], "scaffolds": inp}
    if fmt == "tpf":
        f = d / "input.tpf"
        f.write_text(tpf_ref.format(asm))
    else:
        f = d / "input.agp"
        f.write_text(agp_ref.format(asm))
    (d / "pretext.agp").write_text(gpv.pretext_agp_text(pt, t))
    return {
        "dir": d, "assembly_file": f, "pretext_file": d / "pretext.agp", "fasta_bytes": None,
        "t": t, "input": inp, "pretext": pt, "design": design, "pieces": pieces, "labels": sorted(labels),
        "prefix": (design or {}).get("prefix", "SUPER_"),
    }


def p2a_args(cr, out_name, extra=(), relative_to=None):
    rel = (lambda q: os.path.relpath(q, relative_to)) if relative_to else str
    args = ["-a", rel(cr["assembly_file"]), "-p", rel(cr["pretext_file"])]
    if out_name:
        args += ["-o", rel(cr["dir"] / out_name)]
    if cr.get("prefix") and cr["prefix"] != "SUPER_":
        args += ["-c", cr["prefix"]]
    return args + list(extra)


def run_pretext_to_asm(cr, out_name="out.fa", extra=(), inproc=True, hashseed="0", cwd=None, env_extra=None, keep_handlers=False, relative=False):
    # relative=True: the files are named relative to the working directory `cwd`
    args = p2a_args(cr, out_name, extra, relative_to=(cwd or cr["dir"]) if relative else None)
    if inproc:
        import logging

        from click.testing import CliRunner
        from tola.assembly.scripts.pretext_to_asm import cli

        was = logging.root.manager.disable
        logging.disable(logging.NOTSET)
        old = os.getcwd()
        try:
            if cwd:
                os.chdir(cwd)
            res = CliRunner().invoke(cli, args)
        finally:
            os.chdir(old)
            if not keep_handlers:
                for h in list(logging.root.handlers):
                    logging.root.removeHandler(h)
                    h.close()
            logging.disable(was)
        return {"exit_code": res.exit_code, "stdout": res.stdout, "stderr": res.stderr, "exception": res.exception, "args": args}
    cp = subprocess.run(
        [env.PYTHON, "-m", "tola.assembly.scripts.pretext_to_asm", *args],
        env=env.child_env(env_extra, hashseed=hashseed), cwd=str(cwd or cr["dir"]),
        stdout=subprocess.PIPE, stderr=subprocess.PIPE, timeout=600,
    )
    return {"exit_code": cp.returncode, "stdout": cp.stdout.decode(errors="replace"), "stderr": cp.stderr.decode(errors="replace"), "exception": None, "args": args}


def run_asm_format(args, stdin=None, inproc=True):
    if inproc:
        from click.testing import CliRunner
        from tola.assembly.scripts.asm_format import cli

        res = CliRunner().invoke(cli, [str(a) for a in args], input=stdin)
        return {"exit_code": res.exit_code, "stdout": res.stdout, "stderr": res.stderr, "exception": res.exception}
    cp = subprocess.run(
        [env.PYTHON, "-m", "tola.assembly.scripts.asm_format", *[str(a) for a in args]],
        env=env.child_env(), input=(stdin.encode() if stdin else None), stdout=subprocess.PIPE, stderr=subprocess.PIPE, timeout=600,
    )
    return {"exit_code": cp.returncode, "stdout": cp.stdout.decode(), "stderr": cp.stderr.decode(), "exception": None}


INPUT_PREFIXES = ("input.", "pretext.", "v1.", "current.")


def output_files(cr, exclude_inputs=True):
    return {p.name: p.read_bytes() for p in sorted(cr["dir"].iterdir()) if p.is_file() and not (exclude_inputs and p.name.startswith(INPUT_PREFIXES))}


def inflate_outputs(cr):
    """Every output file of the run just made is made longer (its own content twice, and a comment line): what a
    directory looks like that holds the outputs of an earlier, larger curation under the same names."""
    n = 0
    for name in output_files(cr):
        p = cr["dir"] / name
        b = p.read_bytes()
        p.write_bytes(b + b + b"# left over from an earlier run\n")
        n += 1
    return n


def clear_outputs(cr):
    for p in cr["dir"].iterdir():
        if p.is_file() and not p.is_symlink() and not p.name.startswith(INPUT_PREFIXES):
            p.unlink()


def cleanup(cr):
    shutil.rmtree(cr["dir"], ignore_errors=True)


def case_of(cr, extra=None):
    files = {}
    for name in ("input.fa", "input.tpf", "input.agp", "pretext.agp"):
        p = cr["dir"] / name
        if p.exists() and p.stat().st_size < 400000:
            files[name] = base64.b64encode(p.read_bytes()).decode()
    c = {"kind": "cli", "files": files, "prefix": cr.get("prefix", "SUPER_"), "t": cr.get("t"), "design": cr.get("design"),
         "input": cr.get("input"), "pretext": cr.get("pretext"), "pieces": cr.get("pieces"), "labels": cr.get("labels")}
    if extra:
        c.update(extra)
    return c


def restore_case(case, d):
    d = Path(d)
    d.mkdir(parents=True, exist_ok=True)
    for name, b in case["files"].items():
        (d / name).write_bytes(base64.b64decode(b))
    af = next(d / n for n in ("input.fa", "input.tpf", "input.agp") if (d / n).exists())
    if af.name == "input.fa":
        now = af.stat().st_mtime
        os.utime(af, (now - 1000, now - 1000))
    return {
        "dir": d, "assembly_file": af, "pretext_file": d / "pretext.agp",
        "fasta_bytes": (d / "input.fa").read_bytes() if (d / "input.fa").exists() else None,
        "t": case.get("t"), "input": case.get("input"), "pretext": case.get("pretext"), "design": case.get("design"),
        "pieces": case.get("pieces"), "labels": case.get("labels") or [], "prefix": case.get("prefix", "SUPER_"),
    }


def add_tag_noise(rng, cr):
    """Make some Pretext scaffolds carry several special tags (other spellings of a haplotype,
    a second name tag, ...) and rewrite pretext.agp.  Such maps may be rejected - but always
    in the same way."""
    pt = cr["pretext"]
    pool = ["Hap1", "HAP1", "hap1", "Hap2", "HAP2", "X", "Y", "B1", "Singleton", "Primary", "Target", "Hap3",
            "Haplotig", "Contaminant", "FalseDuplicate", "Haplotig", "Contaminant", "FalseDuplicate", "Unloc"]
    with_pieces = [sc_ for sc_ in pt if any(r[0] == "F" for r in sc_[1])]
    if not with_pieces:
        return  # (every input scaffold is shorter than a texel and absent from the map: nothing to tag)
    for _ in range(rng.randint(1, 3)):
        sc = rng.choice(with_pieces)
        frs = [r for r in sc[1] if r[0] == "F"]
        existing = {t for r in frs for t in r[5]}
        r = rng.choice(frs)
        cand = []
        for t in existing:
            if t.lower() in ("hap1", "hap2"):
                cand += [x for x in (t.upper(), t.lower(), t.capitalize()) if x != t]
        cand += rng.sample(pool, 2)
        for t in rng.sample(cand, min(len(cand), rng.randint(1, 2))):
            if t not in r[5]:
                r[5].append(t)
        if rng.random() < 0.3:
            # one piece set aside under two headings at once (which one counts is the tool's choice - but one choice)
            for t in rng.sample(["Haplotig", "Contaminant", "FalseDuplicate"], 2):
                if t not in r[5]:
                    r[5].append(t)
    (cr["dir"] / "pretext.agp").write_text(gpv.pretext_agp_text(pt, cr["t"]))
    cr["labels"] = sorted(set(cr.get("labels", [])) | {"tag:noise-several-special-tags"})


def release_logging():
    import logging

    for h in list(logging.root.handlers):
        logging.root.removeHandler(h)
        h.close()


def add_haplotig_slivers(rng, cr):
    """Hostile extra: Haplotig-tagged Pretext fragments shorter than a texel that only touch the last
    few bases of a long contig (a sliver left by an imprecise cut).  Remapping drops them."""
    from vf.core import rows_with_pos

    t = cr["t"]
    pt = cr["pretext"]
    added = 0
    for _ in range(rng.randint(1, 3)):
        sc = rng.choice(cr["input"])
        cands = [(x1, x2) for x1, x2, r in rows_with_pos(sc[1]) if r[0] == "F" and (x2 - x1 + 1) > 3 * t + 3]
        if not cands or t < 3:
            continue
        x1, x2 = rng.choice(cands)
        k = rng.randint(1, max(1, int(t * 0.6)))
        ln = rng.randint(k, max(k, int(t) - 1))
        if rng.random() < 0.5:
            a, b = x2 - k + 1, x2 - k + ln  # tail of the contig, running into what follows
        else:
            b = x1 + k - 1
            a = max(1, b - ln + 1)
        pt.append([f"Scaffold_{len(pt) + 1}", [["F", sc[0], a, b, rng.choice([1, -1]), ["Haplotig"]]]])
        added += 1
    if added:
        (cr["dir"] / "pretext.agp").write_text(gpv.pretext_agp_text(pt, t))
        cr["labels"] = sorted(set(cr.get("labels", [])) | {"hostile:haplotig-sliver"})
    return added
