"""G-text: assemblies and texts for the AGP/TPF round-trip laws, and line-level corruptions."""

GAP_TYPES = ["scaffold", "contig", "centromere", "short_arm", "heterochromatin", "telomere", "repeat", "contamination"]
NAME_ALPHA = "abcXYZ019_-.:|/ ()+=,;@'\"[]{}~^%&*!?<>\u00e9\u03b2"
# characters that str.splitlines() takes for line ends but a file is not split at: legitimate inside a name
EXOTIC = "\x0b\x0c\x1c\x1d\x1e\x85\u2028\u2029"


def gen_name(rng, scaffold=False):
    m = rng.random()
    if m < 0.25:
        # looks like a TPF coordinate suffix: exposes a non-greedy name match
        return rng.choice(["x:12-34", "a-1", "c:5", "ctg:1-2:3-4", "s-1-2", "n:0-0", "k:7-"]) + rng.choice(["", "b", ":9-10"])
    if m < 0.5:
        return rng.choice(["scaffold_", "ctg", "SUPER_", "H_", "U", "N", "W", "GAP", "?"]) + str(rng.randint(0, 999))
    n = "".join(rng.choice(NAME_ALPHA) for _ in range(rng.randint(1, 10))).strip()
    if not n or n.startswith("#"):
        n = "q" + n
    if rng.random() < 0.15:
        n = n + "#" + str(rng.randint(1, 9)) + rng.choice(["", "#chr1"])  # PanSN-style names: '#' inside a name is no comment
    if len(n) > 1 and rng.random() < 0.08:
        k = 1 + (len(n) * 7 + ord(n[0])) % (len(n) - 1)
        n = n[:k] + EXOTIC[(len(n) + ord(n[-1])) % len(EXOTIC)] + n[k:]  # never at either end: rstrip() territory
    if not scaffold and rng.random() < 0.1:
        n = rng.choice([" ", ""]) + n + rng.choice([" ", "  "])  # blanks at the ends of a contig name belong to the name
    return n


def gen_assembly(rng, tpf_ok):
    """-> plain assembly {header, scaffolds}. tpf_ok: only what TPF can carry (strands +/-, no leading gap, no tags needed)."""
    scs = []
    names = []
    for _ in range(rng.randint(1, 4)):
        while True:
            n = gen_name(rng, True)
            if n not in names[-1:] and n not in names:
                break
        names.append(n)
        rows = []
        for j in range(rng.randint(1, 6)):
            if rng.random() < 0.35 and (j > 0 or not tpf_ok):
                rows.append(["G", rng.choice([1, 10, 200, 10**6, rng.randint(1, 10**9)]), rng.choice(GAP_TYPES)])
            else:
                st = rng.randint(1, 10 ** rng.randint(0, 12))
                ln = rng.randint(0, 10 ** rng.randint(0, 11))
                tags = [rng.choice(["Painted", "Cut", "T%d" % rng.randint(0, 9), "Hap1", "X", "\u03b1"]) for _ in range(rng.choice([0, 0, 1, 2, 3, 4, 6]))]
                rows.append(["F", gen_name(rng), st, st + ln, rng.choice([1, -1] if tpf_ok else [1, -1, 0]), tags])
        if tpf_ok and rows[0][0] == "G":
            rows.insert(0, ["F", "q", 1, 2, 1, []])
        scs.append([n, rows])
    header = ["hdr line %d" % x if rng.random() < 0.7 else "DESCRIPTION: x\ty " + gen_name(rng) for x in range(rng.choice([0, 0, 1, 2]))]
    # header text may end in blanks (they are part of the text: only the line terminator is not)
    header = [h + rng.choice(["", "", " ", "  ", "\t", " \u00a0"]) for h in header]
    if rng.random() < 0.15:
        # the same text twice (a separator above and below, a repeated note): both lines are header lines
        rep = rng.choice(["-----", "curated by hand", header[0] if header else "x"])
        header = [rep] + header + [rep]
    return {"header": header, "scaffolds": scs}


def corrupt(rng, text, fmt):
    """Returns (new text, kind).  Operates on one data line (or adds benign lines)."""
    lines = text.split("\n")
    if lines and lines[-1] == "":
        lines.pop()
    data_idx = [i for i, l in enumerate(lines) if l.strip() and not l.startswith("#")]
    kind = rng.choice(["drop-column", "bad-strand", "non-numeric", "reversed", "blank-and-comment", "field-count", "gap-first", "duplicate-line", "swap-lines", "no-final-newline", "truncated-line", "tabs-to-blanks"])
    if kind == "no-final-newline":
        # a benign variant: the last line of the file is not terminated
        return "\n".join(lines), kind
    if not data_idx:
        kind = "blank-and-comment"
    i = rng.choice(data_idx) if data_idx else 0
    f = lines[i].split("\t") if data_idx else []
    is_gap = bool(f) and ((fmt == "agp" and len(f) > 4 and f[4] in ("U", "N")) or (fmt == "tpf" and f[0] == "GAP"))
    if kind == "drop-column":
        k = rng.randrange(len(f))
        del f[k]
        lines[i] = "\t".join(f)
    elif kind == "bad-strand":
        if is_gap:
            return text, "unchanged"
        pos = 8 if fmt == "agp" else 3
        f[pos] = rng.choice(["x", "", "PLUS", "+", "0", "plus", "--", "MINUS "]) if fmt == "tpf" else rng.choice(["x", "", "PLUS", "0", "++", "."])
        if fmt == "tpf" and f[pos] in ("PLUS", "MINUS"):
            f[pos] = "UNKNOWN"
        lines[i] = "\t".join(f)
    elif kind == "non-numeric":
        bad = rng.choice(["x12", "", "1.5", "12a", "one"])
        if fmt == "agp":
            pos = 5 if is_gap else rng.choice([6, 7])
            f[pos] = bad
        elif is_gap:
            f[2] = bad
        else:
            nm = f[1]
            j = nm.rfind(":")
            f[1] = nm[: j + 1] + bad + "-" + nm[j + 1 :].split("-")[-1]
        lines[i] = "\t".join(f)
    elif kind == "reversed":
        if is_gap:
            return text, "unchanged"
        if fmt == "agp":
            s, e = int(f[6]), int(f[7])
            if s == e:
                e = s - 1 if s > 1 else s
                s = s + 1 if e == s else s
                f[6], f[7] = str(max(s, e) + 1), str(min(s, e))
            else:
                f[6], f[7] = str(e), str(s)
        else:
            nm = f[1]
            j = nm.rfind(":")
            s, e = nm[j + 1 :].split("-")
            f[1] = nm[: j + 1] + str(int(e) + 1) + "-" + s
        lines[i] = "\t".join(f)
    elif kind == "blank-and-comment":
        for _ in range(rng.randint(1, 3)):
            lines.insert(rng.randint(0, len(lines)), rng.choice(["", "   ", "\t", "##agp-version\t2.1" if fmt == "agp" else "", " " * 3]))
    elif kind == "field-count":
        if fmt == "agp":
            return text, "unchanged"
        if is_gap:
            f = f[:2]
        elif rng.random() < 0.5:
            f.append("extra")
        else:
            f = f[:3]
        lines[i] = "\t".join(f)
    elif kind == "gap-first":
        if fmt != "tpf":
            return text, "unchanged"
        k = next((j for j, l in enumerate(lines) if l.strip() and not l.startswith("#")), 0)
        lines.insert(k, "GAP\tTYPE-2\t200")
    elif kind == "truncated-line":
        # the line is cut off after its k-th column (k may be as small as 1)
        if len(f) < 2:
            return text, "unchanged"
        lines[i] = "\t".join(f[: rng.randint(1, len(f) - 1)])
    elif kind == "tabs-to-blanks":
        # an editor replaced (some of) the tabs of one line with blanks
        if len(f) < 2:
            return text, "unchanged"
        k = rng.choice([0, 0, rng.randint(1, len(f) - 1)])
        lines[i] = " ".join(f) if k == 0 else "\t".join(f[:k]) + " " + " ".join(f[k:])
    elif kind == "duplicate-line":
        lines.insert(i, lines[i])
    elif kind == "swap-lines":
        if len(data_idx) < 2:
            return text, "unchanged"
        a, b = rng.sample(data_idx, 2)
        lines[a], lines[b] = lines[b], lines[a]
    return "\n".join(lines) + "\n", kind
