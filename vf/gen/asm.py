"""G-asm: seeded generator of valid input assemblies (plain data)."""

GAP_TYPES = ["scaffold", "scaffold", "scaffold", "contig", "centromere", "short_arm", "heterochromatin", "telomere", "repeat", "contamination", "contamination"]
TEXELS = [1.0, 1.5, 2.0, 3.7, 10.0, 33.333333, 100.0, 1000.25, 2326.116333]


def pick_texel(rng, small=False):
    if small:
        return rng.choice([1.0, 1.5, 2.0, 3.7, 10.0, round(rng.uniform(1, 12), 6)])
    if rng.random() < 0.15:
        return round(rng.uniform(1, 3000), 6)
    return rng.choice(TEXELS)


def contig_len(rng, t, max_texels=60, small=False):
    c = rng.random()
    if small and c < 0.55:
        # dense in the 0.2 - 2.5 texel range, where shared terminal contigs are resolved by discarding
        return max(1, int(t * rng.uniform(0.2, 2.5)))
    if c < 0.08:
        return 1
    if c < 0.22:
        return rng.randint(1, max(1, int(t)))  # < 1 texel (or 1 bp)
    if c < 0.5:
        return rng.randint(max(1, int(t)), max(2, int(4 * t)))
    lo = max(1, int(min(4, max_texels / 2) * t))
    return rng.randint(lo, max(lo, 3, int(max_texels * t)))


def gap_len(rng, t):
    return rng.choice([1, 10, 10, 100, 200, 200, 200, int(t * rng.uniform(0.1, 5)) + 1, int(t * rng.uniform(0.02, 0.3)) + 1])


def gen_input(rng, t, n_scaff=None, mode=None, strands=None, max_contigs=8, max_texels=60, name_prefix="scaffold_", terminal_gaps=False, small_contigs=False, gap_only=False):
    """Returns (scaffolds, labels).

    mode 'fasta'  : contig name = scaffold name, contig coordinates = scaffold
                    coordinates, a gap at every junction, forward strand.
    mode 'tpf'    : unique free contig names, arbitrary offsets, strands.
    mode 'shared' : rows of one scaffold are disjoint intervals of a few
                    shared contig names (as in real TPF files), any order.
    """
    if mode is None:
        mode = rng.choice(["fasta", "tpf", "tpf", "shared"])
    if strands is None:
        strands = (1,) if (mode == "fasta" or rng.random() < 0.3) else (1, -1)
    if mode == "fasta":
        strands = (1,)
    if n_scaff is None:
        n_scaff = rng.randint(1, 8)
    labels = {f"in:{mode}", "in:both-strands" if len(strands) > 1 else "in:fwd-only"}
    scaffolds = []
    odd = rng.random() < 0.25  # contig names with punctuation
    for i in range(n_scaff):
        name = f"{name_prefix}{i + 1}"
        rows = []
        p = 0
        nc = rng.randint(1, max_contigs)
        shared_next = {}  # contig name -> next free coordinate
        for c in range(nc):
            if c:
                if mode == "fasta" or rng.random() < 0.8:
                    gl = gap_len(rng, t)
                    rows.append(["G", gl, "scaffold" if mode == "fasta" else rng.choice(GAP_TYPES)])
                    p += gl
                    if mode != "fasta" and rng.random() < 0.05:
                        gl = gap_len(rng, t)
                        rows.append(["G", gl, rng.choice(GAP_TYPES)])  # consecutive gaps
                        p += gl
                        labels.add("in:consecutive-gaps")
                else:
                    labels.add("in:gapless-junction")
            ln = contig_len(rng, t, max_texels, small_contigs)
            if ln == 1:
                labels.add("in:1bp-contig")
            if mode == "fasta":
                rows.append(["F", name, p + 1, p + ln, 1, []])
            elif mode == "tpf":
                off = rng.choice([0, 0, rng.randint(0, 1000), rng.randint(0, 10**7)])
                cname = f"ctg{i + 1}.{c + 1}" if not odd else rng.choice(["c|", "k:", "x-", "a.b."]) + f"{i + 1}x{c + 1}"
                rows.append(["F", cname, off + 1, off + ln, rng.choice(strands), []])
            else:
                cname = f"orig{i + 1}{rng.choice('ab')}"
                st = shared_next.get(cname, 0) + rng.choice([0, 0, 1, 200, rng.randint(0, 5000)])
                rows.append(["F", cname, st + 1, st + ln, rng.choice(strands), []])
                shared_next[cname] = st + ln
            p += ln
        if mode == "shared" and rng.random() < 0.3 and len(rows) > 2:
            # contigs of a shared name need not be in coordinate order
            frs = [r for r in rows if r[0] == "F"]
            rng.shuffle(frs)
            it = iter(frs)
            rows = [next(it) if r[0] == "F" else r for r in rows]
            labels.add("in:shared-unordered")
        if terminal_gaps and mode == "fasta" and rng.random() < 0.3:
            # a FASTA record may start and/or end with N
            shift = 0
            if rng.random() < 0.5:
                shift = gap_len(rng, t)
                rows = [["G", shift, "scaffold"]] + [
                    (["F", r[1], r[2] + shift, r[3] + shift, 1, []] if r[0] == "F" else r) for r in rows
                ]
                labels.add("in:leading-gap")
            if shift == 0 or rng.random() < 0.5:
                rows.append(["G", gap_len(rng, t), "scaffold"])
                labels.add("in:trailing-gap")
        scaffolds.append([name, rows])
    if (terminal_gaps and mode == "fasta" and rng.random() < 0.12) or (gap_only and not terminal_gaps and rng.random() < gap_only):
        # a FASTA record made only of N: a scaffold without any contig
        k = rng.randint(0, len(scaffolds))
        scaffolds.insert(k, [f"{name_prefix}N{len(scaffolds) + 1}", [["G", rng.choice([1, 50, 200, int(3 * t) + 1]), "scaffold"]]])
        labels.add("in:gap-only-scaffold")
    return scaffolds, labels
