"""G-pv (PretextView-model edit scripts) and G-hostile (maps that need not be honourable)."""

import math

from vf.core import scaffold_len


def gen_pieces(rng, scaffolds, t, cut_prob=0.5, max_cuts=4):
    """Cut every input scaffold on the texel grid.

    Returns pieces: dicts {s, a, b, start, end} with
      start = floor(a*t)+1, end = floor(b*t)  (as in the real PretextView files:
      pieces of one scaffold tile it, the last end over/undershoots by < 1 texel).
    """
    pieces = []
    labels = set()
    for s in scaffolds:
        L = scaffold_len(s)
        q = L / t
        if rng.random() < 0.5:
            n = math.floor(q)
            labels.add("pv:floor")
        else:
            n = math.ceil(q)
            labels.add("pv:ceil")
        if n == 0:
            if rng.random() < 0.5:
                labels.add("pv:subtexel-absent")
                continue
            labels.add("pv:subtexel-present")
            n = 1
        cuts = []
        if n >= 4 and rng.random() < cut_prob:
            k = rng.randint(1, max(1, min(max_cuts, n // 2 - 1)))
            for _ in range(30):
                if n - 3 < k:
                    k = max(1, n - 3)
                cand = sorted(rng.sample(range(2, n - 1), k))
                pts = [0, *cand, n]
                if all(b - a >= 2 for a, b in zip(pts, pts[1:])):
                    cuts = cand
                    break
        pts = [0, *cuts, n]
        for a, b in zip(pts, pts[1:]):
            st, en = math.floor(a * t) + 1, math.floor(b * t)
            if en < st:
                continue
            pieces.append({"s": s[0], "a": a, "b": b, "start": st, "end": en, "L": L})
        if cuts:
            labels.add("pv:cut")
    return pieces, labels


def gen_pretext(rng, pieces, paint_prob=0.6, reorient=True, shuffle=True):
    """Group pieces into Pretext scaffolds; returns (pretext scaffolds, labels).
    Each piece dict gets 'pt' (index of its Pretext scaffold), 'strand', 'painted'."""
    pcs = list(pieces)
    if shuffle:
        rng.shuffle(pcs)
    out = []
    labels = set()
    n = 0
    while pcs:
        k = rng.choice([1, 1, 1, 2, 3, 4])
        grp, pcs = pcs[:k], pcs[k:]
        painted = rng.random() < paint_prob
        rows = []
        for j, pc in enumerate(grp):
            if j:
                rows.append(["G", 100, "scaffold"])
            strand = rng.choice([1, 1, -1]) if reorient else 1
            pc["pt"] = n
            pc["ord"] = j
            pc["strand"] = strand
            pc["painted"] = painted
            rows.append(["F", pc["s"], pc["start"], pc["end"], strand, ["Painted"] if painted else []])
            if strand == -1:
                labels.add("pv:reversed-piece")
        labels.add("pv:painted" if painted else "pv:unpainted")
        if len(grp) > 1:
            labels.add("pv:multi-piece-scaffold")
        n += 1
        out.append([f"Scaffold_{n}", rows])
    return out, labels


def gen_pv_case(rng, t, inp, cut_prob=0.5, paint_prob=0.6):
    pieces, l1 = gen_pieces(rng, inp, t, cut_prob)
    pt, l2 = gen_pretext(rng, pieces, paint_prob)
    return pt, pieces, l1 | l2


HOSTILE_MODES = ["perturb", "perturb", "arbitrary", "dropdup", "overlap", "tagnoise", "holes", "holes", "nested", "nested"]


def gen_hostile(rng, t, inp, mode=None):
    """Pretext rows that PretextView could not have produced."""
    mode = mode or rng.choice(HOSTILE_MODES)
    labels = {f"hostile:{mode}"}
    pieces, _ = gen_pieces(rng, inp, t, cut_prob=rng.choice([0.3, 0.8]))
    pert_k = rng.choice([0.3, 1, 3])
    pert_p = rng.choice([0.15, 0.5])
    baits = []
    by_name = {s[0]: scaffold_len(s) for s in inp}
    if mode == "arbitrary" or not pieces:
        for _ in range(rng.randint(1, 8)):
            s = rng.choice(inp)
            L = by_name[s[0]]
            a = rng.randint(1, L + int(2 * t))
            b = rng.randint(a, min(a + rng.choice([0, 1, int(t), int(5 * t), L]), L + int(3 * t)))
            baits.append((s[0], a, b))
    else:
        # perturb only a few pieces in most cases, so that the rest of the map stays honourable
        nper = rng.choice([1, 1, 2, 3, len(pieces)])
        chosen = set(rng.sample(range(len(pieces)), min(nper, len(pieces))))
        if mode == "holes":
            # a hole is made at a boundary between two consecutive pieces of one scaffold
            inner = [i for i, pc in enumerate(pieces) if pc["a"] > 0]
            chosen = set(rng.sample(inner, min(len(inner), rng.choice([1, 1, 2])))) if inner else set()
        for ip, pc in enumerate(pieces):
            sn, st, en = pc["s"], pc["start"], pc["end"]
            if mode == "holes":
                d1 = rng.randint(0, max(1, int(t) - 1)) if ip in chosen else 0
                nxt = pieces[ip + 1] if ip + 1 < len(pieces) else None
                d2 = -rng.randint(0, max(1, int(t) - 1)) if (nxt is not None and (ip + 1) in chosen and nxt["s"] == sn) else 0
                st2 = max(1, st + d1)
                baits.append((sn, st2, max(st2, en + d2)))
                continue
            if ip not in chosen and mode in ("perturb", "overlap"):
                baits.append((sn, st, en))
                continue
            if mode == "dropdup":
                r = rng.random()
                if r < 0.2:
                    continue
                if r < 0.4:
                    baits.append((sn, st, en))
            d1 = d2 = 0
            w = int(pert_k * t) + 2
            if mode == "overlap":
                if rng.random() < pert_p:
                    d1 = -rng.randint(1, 6 * w)
                if rng.random() < pert_p:
                    d2 = rng.randint(1, 6 * w)
            elif mode != "tagnoise":
                if rng.random() < pert_p:
                    d1 = rng.randint(-w, w)
                if rng.random() < pert_p:
                    d2 = rng.randint(-w, w)
            st2 = max(1, st + d1)
            en2 = max(st2, en + d2)
            baits.append((sn, st2, en2))
    if mode == "nested":
        # an honourable map plus one or two extra baits lying inside an existing piece (a region pasted twice):
        # contigs at the ends of the inner bait are terminal there and interior in the outer piece
        baits = [(pc["s"], pc["start"], pc["end"]) for pc in pieces]
        big = [pc for pc in pieces if pc["b"] - pc["a"] >= 5]
        for _ in range(rng.randint(1, 2)):
            if not big:
                break
            pc = rng.choice(big)
            a = rng.randint(pc["a"], pc["b"] - 2)
            b = rng.randint(a + 2, pc["b"]) if rng.random() < 0.7 else min(pc["b"] + rng.randint(0, 3), a + rng.randint(2, 6))
            baits.append((pc["s"], math.floor(a * t) + 1, max(math.floor(a * t) + 1, math.floor(b * t))))
    rng.shuffle(baits)
    tags_pool = ["Contaminant", "Haplotig", "Unloc", "FalseDuplicate", "Target", "X", "Hap1", "Hap2", "Primary", "Singleton", "Cut"]
    noise = 0.0 if mode != "tagnoise" else 0.12
    pt = []
    n = 0
    while baits:
        n += 1
        k = rng.choice([1, 1, 2, 3])
        grp, baits = baits[:k], baits[k:]
        painted = rng.random() < 0.5
        sctags = [x for x in tags_pool if rng.random() < noise]
        rows = []
        for sn, a, b in grp:
            tags = (["Painted"] if painted else []) + [x for x in sctags if rng.random() < 0.7] + [x for x in tags_pool[:4] if rng.random() < noise]
            # now and then a fragment of unknown orientation ('?' is legal AGP; PretextView never writes it)
            rows.append(["F", sn, a, b, rng.choice([1, -1]) if rng.random() < 0.93 else 0, tags])
        pt.append([f"Scaffold_{n}", rows])
    return pt, labels


def pretext_agp_text(pt, t, version="0.2.5"):
    """Pretext scaffolds as PretextView writes them (header, 100 bp U gaps, stray trailing tab)."""
    lines = ["##agp-version\t2.1", f"# DESCRIPTION: Generated by PretextView Version {version}", f"# HiC MAP RESOLUTION: {t:.6f} bp/texel"]
    for name, rows in pt:
        p = 0
        part = 0
        for r in rows:
            part += 1
            if r[0] == "G":
                lines.append(f"{name}\t{p + 1}\t{p + r[1]}\t{part}\tU\t{r[1]}\t{r[2]}\tyes\tproximity_ligation")
                p += r[1]
            else:
                ln = r[3] - r[2] + 1
                strand = {1: "+", -1: "-", 0: "?"}[r[4]]
                tags = "".join("\t" + x for x in r[5])
                lines.append(f"{name}\t{p + 1}\t{p + ln}\t{part}\tW\t{r[1]}\t{r[2]}\t{r[3]}\t{strand}{tags}" + ("" if r[5] else "\t"))
                p += ln
    return "\n".join(lines) + "\n"
