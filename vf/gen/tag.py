"""G-tag: designed taggings of PretextView-model maps with known destinations (C09/C10).

The generator decides the *intent* first and keeps it beside the case:
every piece carries `kind` (main, unloc, htig, cont, fdup, unpainted) and
`expect` (class of the destination assembly: None = primary / its haplotype,
'Haplotig', 'Contaminant', 'FalseDuplicate', or a haplotype name).
Only consistent taggings are generated (see DESIGN 2.3).
"""

import math

from vf.core import rows_with_pos, scaffold_len
from vf.gen import asm as gasm
from vf.gen import pv as gpv

NAMETAGS = ["X", "Y", "Z", "W", "B1", "B2", "B10", "A12", "U", "V", "I", "II", "III", "2RL", "10XY", "1RL"]  # (\d+[A-Z]+ is a name too)


def margin(t):
    return 3 * (1 + math.floor(t))


def core_interval(piece, t):
    m = margin(t)
    lo = piece["start"] + m + 1
    hi = min(piece["end"], piece["L"]) - m - 1
    return (lo, hi) if lo <= hi else None


def core_has_bases(inp_by_name, piece, t):
    ci = core_interval(piece, t)
    if not ci:
        return False
    lo, hi = ci
    for x1, x2, r in rows_with_pos(inp_by_name[piece["s"]][1]):
        if r[0] == "F" and max(x1, lo) <= min(x2, hi):
            return True
    return False


def _emit(rng, design_scaffolds, target_mode):
    """design_scaffolds: list of dict(painted, rows=[piece...], target, nametag, hap, extra_tags).
    Fills tags, pt, ord, strand; applies the Target rule; returns pretext scaffolds."""
    pt = []
    seen_target = False
    for n, d in enumerate(design_scaffolds):
        rows = []
        if target_mode and d["target"]:
            seen_target = True
        for j, pc in enumerate(d["rows"]):
            tags = []
            if d["painted"]:
                tags.append("Painted")
            tags += {"unloc": ["Unloc"], "htig": ["Haplotig"], "cont": ["Contaminant"], "fdup": ["FalseDuplicate"]}.get(pc["kind"], [])
            if target_mode and d["target"]:
                tags.append("Target")
            if target_mode and seen_target and not d["target"] and pc["kind"] not in ("htig", "fdup"):
                # (an explicit Haplotig / FalseDuplicate tag still names its own destination)
                pc["expect"] = "Contaminant"
            for x in d.get("row_tags", {}).get(j, []):
                tags.append(x)
            if j:
                rows.append(["G", 100, "scaffold"])
            pc["pt"] = n
            pc["ord"] = j
            pc["strand"] = rng.choice([1, 1, -1])
            pc["painted"] = d["painted"]
            pc["tags"] = tags
            rows.append(["F", pc["s"], pc["start"], pc["end"], pc["strand"], tags])
        pt.append([f"Scaffold_{n + 1}", rows])
    return pt


def gen_single(rng, t, inp, vanishing=False, drop_piece=False):
    """One haplotype.  Returns (pretext, design)."""
    by_name = {s[0]: s for s in inp}
    pieces, labels = gpv.gen_pieces(rng, inp, t, cut_prob=0.6)
    absent_rows = []
    if drop_piece and len(pieces) >= 3:
        # one piece of a scaffold is missing from the map while its sister pieces are there: the contigs
        # inside its core are "sequence absent from the map" (left over, re-added under the input name)
        cands = [p for p in pieces if sum(1 for q in pieces if q["s"] == p["s"]) >= 2]
        if cands:
            gone = rng.choice(cands)
            pieces = [p for p in pieces if p is not gone]
            ci = core_interval(gone, t)
            if ci:
                absent_rows = [[gone["s"], r] for x1, x2, r in rows_with_pos(by_name[gone["s"]][1]) if r[0] == "F" and x1 >= ci[0] and x2 <= ci[1]]
            labels.add("tag:piece-dropped-from-map")
    rng.shuffle(pieces)
    target_mode = rng.random() < 0.3
    prefix = rng.choice(["SUPER_", "SUPER_", "CHR", "RL_"])
    pcs = list(pieces)
    design = []
    many = rng.random() < 0.08
    roman_family = rng.random() < 0.5
    nchr = rng.randint(0, max(0, len(pcs) // 2)) if not many else max(0, len(pcs) - 2)
    used_names = set()
    for c in range(nchr):
        if not pcs:
            break
        k = rng.randint(1, min(4, len(pcs))) if not many else 1
        grp, pcs = pcs[:k], pcs[k:]
        nametag = None
        if rng.random() < 0.25:
            # never nematode numerals together with digit-leading names in one map: II and 2RL have sort keys
            # of which one is a prefix of the other (the D10 family, judged in C20's own shard)
            cand = [x for x in NAMETAGS if x not in used_names and not (x[0].isdigit() if roman_family else x in ("I", "II", "III"))]
            if cand:
                nametag = rng.choice(cand)
                used_names.add(nametag)
        has_target = (not target_mode) or rng.random() < 0.8
        n_main = 0
        for j, pc in enumerate(grp):
            pc["kind"], pc["expect"] = "main", None
            r = rng.random()
            if len(grp) > 1:
                if r < 0.25:
                    pc["kind"] = "unloc"
                elif r < 0.33:
                    pc["kind"], pc["expect"] = "htig", "Haplotig"
                elif r < 0.41:
                    pc["kind"], pc["expect"] = "cont", "Contaminant"
                elif r < 0.47:
                    pc["kind"], pc["expect"] = "fdup", "FalseDuplicate"
            if pc["kind"] == "main":
                n_main += 1
        solid = [pc for pc in grp if pc["kind"] == "main" and core_has_bases(by_name, pc, t)]
        if not solid and not vanishing:
            # guarantee a localised piece whose core holds contig bases
            cand = [pc for pc in grp if core_has_bases(by_name, pc, t)]
            if cand:
                cand[0]["kind"], cand[0]["expect"] = "main", None
            else:
                # cannot guarantee the chromosome exists: leave these pieces unpainted
                for pc in grp:
                    pcs.append(pc)
                continue
        elif not solid:
            labels.add("tag:vanishing-candidate")
        if not any(pc["kind"] == "main" for pc in grp):
            grp[0]["kind"], grp[0]["expect"] = "main", None
        row_tags = {}
        if nametag:
            row_tags[rng.randrange(len(grp))] = [nametag]
        for j, pc in enumerate(grp):
            # a piece that is set aside as haplotig / false duplicate may be an unlocalised one: the explicit
            # destination wins and the piece takes no unloc number (Contaminant + Unloc is left out: contradictory)
            if pc["kind"] in ("htig", "fdup") and rng.random() < 0.35:
                row_tags.setdefault(j, []).append("Unloc")
                labels.add("tag:set-aside-piece-also-tagged-unloc")
        for pc in grp:
            pc["chrom"] = c
            pc["nametag"] = nametag
        design.append({"painted": True, "rows": grp, "target": has_target, "nametag": nametag, "row_tags": row_tags})
    # unpainted scaffolds
    while pcs:
        k = 1 if rng.random() < 0.85 else min(2, len(pcs))
        grp, pcs = pcs[:k], pcs[k:]
        has_target = (not target_mode) or rng.random() < 0.5
        for pc in grp:
            pc["kind"], pc["expect"] = "unpainted", None
            r = rng.random()
            if k == 1:
                if r < 0.12:
                    pc["kind"], pc["expect"] = "htig", "Haplotig"
                elif r < 0.18:
                    pc["kind"], pc["expect"] = "fdup", "FalseDuplicate"
            if pc["kind"] == "unpainted" and 0.18 <= r < 0.30:
                pc["kind"], pc["expect"] = "cont", "Contaminant"
            pc["chrom"] = None
            pc["nametag"] = None
        row_tags = {}
        nametag = None
        if not vanishing and not drop_piece and rng.random() < 0.1 and all(pc["kind"] == "unpainted" and core_has_bases(by_name, pc, t) for pc in grp):
            # a chromosome-name tag on a scaffold that was not painted: the tag alone makes it that chromosome
            cand = [x for x in NAMETAGS if x not in used_names and not (x[0].isdigit() if roman_family else x in ("I", "II", "III"))]
            if cand:
                nametag = rng.choice(cand)
                used_names.add(nametag)
                row_tags[rng.randrange(len(grp))] = [nametag]
                for pc in grp:
                    pc["kind"], pc["chrom"], pc["nametag"] = "main", 1000 + len(design), nametag
                labels.add("tag:name-tag-on-unpainted-scaffold")
        design.append({"painted": False, "rows": grp, "target": has_target, "nametag": nametag, "row_tags": row_tags})
    rng.shuffle(design)
    # chromosome ids follow the shuffled order
    pt = _emit(rng, design, target_mode)
    all_pieces = [pc for d in design for pc in d["rows"]]
    first_target = next((n for n, d in enumerate(design) if target_mode and d["target"]), None)
    for pc in all_pieces:
        labels.add(f"tag:{pc['kind']}")
    if target_mode:
        labels.add("tag:target-mode" if first_target is not None else "tag:target-mode-without-target")
    labels.add("tag:single-haplotype")
    return pt, {
        "haps": None,
        "prefix": prefix,
        "target_mode": target_mode and first_target is not None,
        "first_target": first_target,
        "pieces": all_pieces,
        "absent_rows": absent_rows,
        "labels": sorted(labels),
    }


def gen_two_hap(rng, t, unprefixed=False, primary=None):
    """Two haplotypes in one map; returns (input scaffolds, pretext, design).
    unprefixed: also input scaffolds whose names carry no haplotype prefix (expected in the primary assembly)."""
    inp = []
    # haplotype names: usually HAP1/HAP2, sometimes names without a trailing digit (trio binning)
    H1, H2 = rng.choice([("HAP1", "HAP2"), ("HAP1", "HAP2"), ("HAP1", "HAP2"), ("MAT", "PAT"), ("hapA", "hapB")])
    for h in (H1, H2):
        scs, _ = gasm.gen_input(rng, t, n_scaff=rng.randint(2, 6), mode="fasta", max_texels=60)
        for k, s in enumerate(scs):
            nm = f"{h}_SCAFFOLD_{k + 1}"
            s[0] = nm
            s[1] = [["F", nm, r[2], r[3], r[4], []] if r[0] == "F" else r for r in s[1]]
        inp += scs
    extra_names = []
    if unprefixed:
        scs, _ = gasm.gen_input(rng, t, n_scaff=rng.randint(1, 2), mode="fasta", max_texels=20)
        for k, s in enumerate(scs):
            nm = rng.choice(["mito", "scaffold", "unloc", "MT"]) + f"_{k + 7}"
            s[0] = nm
            s[1] = [["F", nm, r[2], r[3], r[4], []] if r[0] == "F" else r for r in s[1]]
            extra_names.append(nm)
        inp += scs
    if rng.random() < 0.5:
        rng.shuffle(inp)  # the scaffolds of the haplotypes come interleaved in the input file
    by_name = {s[0]: s for s in inp}
    pieces, labels = gpv.gen_pieces(rng, inp, t, cut_prob=0.3)
    if [s[0].split("_")[0] for s in inp] != sorted([s[0].split("_")[0] for s in inp], key=[H1, H2].index if all(s[0].split("_")[0] in (H1, H2) for s in inp) else None):
        labels.add("in:haplotype-scaffolds-interleaved")
    if extra_names:
        labels.add("tag:unprefixed-scaffold-in-haplotype-map")
        # some of them are absent from the map altogether
        gone = {n for n in extra_names if rng.random() < 0.5}
        pieces = [p for p in pieces if p["s"] not in gone]
    big = lambda p: core_has_bases(by_name, p, t) and (p["end"] - p["start"] + 1) > 8 * (1 + int(t))  # noqa: E731
    p1 = [p for p in pieces if p["s"].startswith(H1 + "_") and big(p)]
    p2 = [p for p in pieces if p["s"].startswith(H2 + "_") and big(p)]
    small = [p for p in pieces if p not in p1 and p not in p2]
    group_tags = ["X", "Z", "W", "B1"]
    rng.shuffle(group_tags)
    rng.shuffle(p1)
    rng.shuffle(p2)
    spell = rng.choice([str.upper, str.lower, str.capitalize, lambda x: x])
    tagcase = (spell(H1), spell(H2))
    use_tags = rng.random() < 0.7
    primary = (rng.random() < 0.25) if primary is None else primary
    prefix = rng.choice(["SUPER_", "SUPER_", "CHR"])
    design = []
    ngroups = rng.randint(1, 4)
    gi = 0
    for _ in range(ngroups):
        if not p1:
            break
        k = rng.randint(1, min(3, len(p1)))
        g1, p1 = p1[:k], p1[k:]
        h2s = []
        gtag = group_tags.pop() if group_tags and rng.random() < 0.3 else None  # e.g. a sex chromosome present in both haplotypes
        for _ in range(rng.randint(0, 2) if gtag is None else rng.randint(0, 1)):
            if p2:
                k2 = rng.randint(1, min(3, len(p2)))
                g2, p2 = p2[:k2], p2[k2:]
                h2s.append(g2)
        moved_in = False
        if primary and gi == 0 and p2 and rng.random() < 0.4:
            # a piece that was assembled into the other haplotype is moved to the start of the Primary chromosome:
            # the chromosome's haplotype TAG says where it goes, not the name of its first piece
            g1 = [p2.pop()] + g1
            moved_in = True
            labels.add("tag:primary-chromosome-starts-with-piece-named-after-other-haplotype")
        # first piece localised, later pieces may be unlocs
        for hap, grp in [(0, g1)] + [(1, g) for g in h2s]:
            row_tags = {0: []}
            if use_tags or (moved_in and hap == 0) or not grp[0]["s"].startswith((H1 if hap == 0 else H2) + "_"):
                row_tags[0].append(tagcase[hap])
            if hap == 0 and not h2s:
                # (the tag sits on any one piece of the chromosome, not necessarily the first)
                row_tags.setdefault(rng.randrange(len(grp)) if rng.random() < 0.5 else 0, []).append("Singleton")
            if hap == 0 and primary and gi == 0:
                row_tags[0].append("Primary")
            if gtag:
                row_tags[0].append(gtag)
                labels.add("tag:name-tag-in-both-haplotypes")
            for j, pc in enumerate(grp):
                pc["kind"], pc["expect"] = ("main" if j == 0 or rng.random() < 0.6 else "unloc"), ("hap1", "hap2")[hap]
                pc["chrom"] = len(design)
                pc["group"] = gi if gtag is None else None
                pc["hap"] = hap
                pc["nametag"] = gtag
            design.append({"painted": True, "rows": grp, "target": True, "nametag": gtag, "row_tags": row_tags, "hap": hap, "group": gi})
        gi += 1
    if not design:
        return None
    # the rest: unpainted, one piece each
    for pc in p1 + p2 + small:
        hap = 0 if pc["s"].startswith(H1 + "_") else 1
        pc["kind"], pc["expect"] = "unpainted", ("hap1", "hap2")[hap]
        if pc["s"] in extra_names:
            pc["expect"] = "none"
        r = rng.random()
        if r < 0.1:
            pc["kind"], pc["expect"] = "htig", "Haplotig"
        elif r < 0.2:
            pc["kind"], pc["expect"] = "cont", "Contaminant"
        elif r < 0.25:
            pc["kind"], pc["expect"] = "fdup", "FalseDuplicate"
        pc["chrom"] = None
        pc["hap"] = hap
        pc["nametag"] = None
        design.append({"painted": False, "rows": [pc], "target": True, "nametag": None, "row_tags": {}})
    if extra_names and rng.random() < 0.5:
        # an untagged Pretext scaffold of two pieces: the first from a scaffold of no haplotype, the second from a
        # haplotype-named one.  Its haplotype is decided by the FIRST piece's name: the whole scaffold is unplaced
        # sequence of no haplotype
        firsts = [d for d in design if not d["painted"] and d["rows"][0]["s"] in extra_names and d["rows"][0]["kind"] == "unpainted"]
        seconds = [d for d in design if not d["painted"] and d["rows"][0]["s"] not in extra_names and d["rows"][0]["kind"] == "unpainted" and not d.get("row_tags")]
        if firsts and seconds:
            a, b = rng.choice(firsts), rng.choice(seconds)
            b["rows"][0]["expect"] = "none"
            a["rows"].append(b["rows"][0])
            design = [d for d in design if d is not b]
            labels.add("tag:untagged-scaffold-of-mixed-origin")
    if rng.random() < 0.2:
        # one input scaffold cut in two unpainted pieces, both set aside with the same tag, one of them also
        # re-assigned to the other haplotype: both pieces are expected in that tag's file (names stay unique)
        un = [d for d in design if not d["painted"] and d["rows"][0]["s"] not in extra_names]
        by_s = {}
        for d in un:
            by_s.setdefault(d["rows"][0]["s"], []).append(d)
        cands = [v for v in by_s.values() if len(v) >= 2]
        if cands:
            a, b = rng.sample(rng.choice(cands), 2)
            kind, exp = rng.choice([("cont", "Contaminant"), ("cont", "Contaminant"), ("fdup", "FalseDuplicate")])
            for d in (a, b):
                d["rows"][0]["kind"], d["rows"][0]["expect"] = kind, exp
            other = 1 - b["rows"][0]["hap"]
            b["row_tags"] = {0: [tagcase[other]]}
            b["rows"][0]["hap"] = other
            labels.add("tag:two-pieces-of-one-scaffold-set-aside-in-different-haplotypes")
    if not primary and rng.random() < 0.5:
        # Pretext order is arbitrary: unplaced scaffolds may come before, between and after the chromosome
        # groups (the painted scaffolds of one group stay next to each other, as the grouping rule requires)
        blocks, cur = [], None
        for d in design:
            g = d.get("group") if d["painted"] else None
            if d["painted"] and cur is not None and cur[0] == g:
                cur[1].append(d)
            else:
                cur = (g if d["painted"] else object(), [d])
                blocks.append(cur)
        rng.shuffle(blocks)
        design = [d for _, b in blocks for d in b]
        labels.add("tag:two-haplotypes-shuffled-order")
        if tagcase != (H1, H2) and rng.random() < 0.6:
            # an untagged, unplaced scaffold (haplotype known from its name only, spelled as in the name) is the
            # very first Pretext scaffold, before any scaffold that carries the haplotype as a tag (spelled otherwise)
            un = [d for d in design if not d["painted"] and not d.get("row_tags") and d["rows"][0]["kind"] == "unpainted" and d["rows"][0]["s"] not in extra_names]
            if un:
                first = rng.choice(un)
                design = [first] + [d for d in design if d is not first]
                labels.add("tag:name-spelled-haplotype-seen-before-its-tag")
    if primary and rng.random() < 0.35:
        # tags are per piece in PretextView: a piece that was tagged Primary together with the rest of the Primary
        # chromosome and then moved out into an unplaced scaffold of the other haplotype keeps the tag.  The
        # first Primary tag of the map has already said which haplotype is the primary one; nothing changes
        un = [d for d in design if not d["painted"] and not d.get("row_tags") and d["rows"][0]["kind"] == "unpainted"
              and len(d["rows"]) == 1 and d["rows"][0]["s"].startswith(H2 + "_")]
        if un and design[0]["painted"] and "Primary" in design[0]["row_tags"].get(0, []):
            later = rng.choice(un)
            later["row_tags"] = {0: ["Primary"]}
            labels.add("tag:second-primary-tag-on-scaffold-of-other-haplotype")
    pt = _emit(rng, design, False)
    all_pieces = [pc for d in design for pc in d["rows"]]
    for pc in all_pieces:
        labels.add(f"tag:{pc['kind']}")
    labels.add("tag:two-haplotypes")
    if primary:
        labels.add("tag:primary")
    if not use_tags:
        labels.add("tag:haplotype-from-names-only")
    if H1 != "HAP1":
        labels.add("tag:haplotype-names-without-digit" if H1 == "MAT" else "tag:haplotype-names-mixed-case")
    return inp, pt, {
        "haps": list(tagcase),
        "hap_prefixes": [H1, H2],
        "primary": primary,
        "prefix": prefix,
        "target_mode": False,
        "first_target": None,
        "pieces": all_pieces,
        "labels": sorted(labels),
    }


def gen_multi_hap_primary(rng, t, nhap=3):
    """A combined map of `nhap` haplotypes of which only the first is curated (its first chromosome carries
    the Primary tag); the others may still have painted scaffolds.  Simple on purpose: the remap oracles that
    do not depend on the naming design (conservation, gaps, ordering of written files) run on it."""
    inp = []
    haps = [f"HAP{k + 1}" for k in range(nhap)]
    lean = rng.random() < 0.5  # un-curated haplotypes that consist of one painted chromosome each
    for h in haps:
        scs, _ = gasm.gen_input(rng, t, n_scaff=1 if (lean and h != haps[0]) else rng.randint(1, 3), mode="fasta", max_texels=40)
        for k, s in enumerate(scs):
            nm = f"{h}_SCAFFOLD_{k + 1}"
            s[0] = nm
            s[1] = [["F", nm, r[2], r[3], r[4], []] if r[0] == "F" else r for r in s[1]]
        inp += scs
    by_name = {s[0]: s for s in inp}
    pieces, labels = gpv.gen_pieces(rng, inp, t, cut_prob=0.2)
    design = []
    for hi, h in enumerate(haps):
        mine = [p for p in pieces if p["s"].startswith(h + "_")]
        big = [p for p in mine if core_has_bases(by_name, p, t) and (p["end"] - p["start"] + 1) > 8 * (1 + int(t))]
        npaint = (1 if lean else rng.choice([0, 1, 1, 2])) if hi else 1
        painted = big[:npaint]
        for j, pc in enumerate(painted):
            pc.update(kind="main", expect=h, chrom=len(design), hap=hi, nametag=None, group=None)
            tags = [h] + (["Primary"] if hi == 0 and j == 0 else [])
            design.append({"painted": True, "rows": [pc], "target": True, "nametag": None, "row_tags": {0: tags}})
        for pc in mine:
            if any(pc is q for q in painted):
                continue
            pc.update(kind="unpainted", expect=h, chrom=None, hap=hi, nametag=None)
            design.append({"painted": False, "rows": [pc], "target": True, "nametag": None, "row_tags": {}})
    if not any(d["painted"] and "Primary" in d["row_tags"].get(0, []) for d in design):
        return None
    rng.shuffle(design)
    pt = _emit(rng, design, False)
    labels |= {"tag:primary", f"tag:{nhap}-haplotypes"}
    return inp, pt, {"haps": haps, "hap_prefixes": haps, "primary": True, "prefix": "SUPER_", "target_mode": False, "first_target": None,
                     "pieces": [pc for d in design for pc in d["rows"]], "labels": sorted(labels)}


def add_haplotig_slivers(rng, inp, pt, t):
    """Hostile extra for a designed map: Haplotig-tagged Pretext scaffolds whose bait is shorter than a
    texel and only touches the last / first few bases of a long contig.  Remapping drops them (the
    lookup result is trimmed to nothing) - but their H_n number was already handed out."""
    added = 0
    if t < 3:
        return 0
    for _ in range(rng.randint(1, 3)):
        sc = rng.choice(inp)
        cands = [(x1, x2) for x1, x2, r in rows_with_pos(sc[1]) if r[0] == "F" and (x2 - x1 + 1) > 3 * t + 3]
        if not cands:
            continue
        x1, x2 = rng.choice(cands)
        # entirely inside the long contig (a bait reaching past it could swallow a tiny neighbour
        # and so change what the designed pieces are expected to contain)
        ln = rng.randint(1, max(1, int(t) - 1))
        if rng.random() < 0.5:
            a, b = x2 - ln + 1, x2
        else:
            a, b = x1, x1 + ln - 1
        pos = rng.randint(0, len(pt))
        pt.insert(pos, [f"Sliver_{len(pt) + 1}", [["F", sc[0], a, b, rng.choice([1, -1]), ["Haplotig"]]]])
        added += 1
    return added
