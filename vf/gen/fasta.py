"""G-fasta: seeded FASTA byte strings; G-sub: assemblies over the records of a FASTA."""

ALPHABETS = [b"ACGT", b"ACGTN", b"ACGTNacgtn", b"ACGTRYKMSWBDHVNacgtrykmswbdhvn", b"ACGTacgt-*Xx.", b"NNNA", b"acgt"]
WIDTHS = [1, 2, 3, 5, 7, 10, 60, 61, 80]


def gen_seq(rng, w, alphabet=None, maxlen=240):
    alpha = alphabet or rng.choice(ALPHABETS)
    L = rng.choice([1, 2, max(1, w - 1), w, w + 1, 2 * w, 3 * w, rng.randint(1, maxlen)])
    seq = bytes(rng.choice(alpha) for _ in range(L))
    r = rng.random()
    if r < 0.35:
        k = rng.choice([0, len(seq), rng.randint(0, len(seq))])
        seq = seq[:k] + b"N" * rng.choice([1, 2, w, w + 1, rng.randint(1, 2 * w + 3)]) + seq[k:]
    elif r < 0.42:
        seq = b"N" * rng.randint(1, 2 * w + 1)  # N-only record
    return seq


def gen_fasta(rng, nrec=None, widths=None, maxlen=240, crlf=None, final_nl=None, alphabet=None):
    """Returns (bytes, meta); meta = dict(records=[(name, seq)], crlf, final_nl, widths)."""
    if nrec is None:
        nrec = rng.randint(1, 5)
    if crlf is None:
        crlf = rng.random() < 0.35
    if final_nl is None:
        final_nl = rng.random() < 0.65
    nl = b"\r\n" if crlf else b"\n"
    data = b""
    recs = []
    ws = []
    used = set()
    for r in range(nrec):
        w = rng.choice(widths or WIDTHS)
        seq = gen_seq(rng, w, alphabet, maxlen)
        while True:
            name = rng.choice(["r", "seq", "scaffold_", "HAP1_x", "c|", "a.b:", "HG002#1#chr", "ctg%2F", "p%%", '"q', '"ctg"x']) + str(rng.randint(0, 999))
            if name not in used:
                used.add(name)
                break
        hdr = b">" + (b" " if rng.random() < 0.05 else b"") + name.encode()
        if rng.random() < 0.3:
            # (descriptions are free text in any encoding: Latin-1 bytes, byte-order marks; only the name is the index's)
            hdr += rng.choice([b" some description", b"\tlen=12 x", b" ", b" Caf\xe9 au lait", b"\tsource=\xff\xfe1"])
        body = nl.join(seq[j : j + w] for j in range(0, len(seq), w))
        data += hdr + nl + body + nl
        if r < nrec - 1 and rng.random() < 0.08:
            data += nl * rng.randint(1, 2)  # blank line(s) between two records
        recs.append((name, seq))
        ws.append(w)
    if not final_nl:
        data = data[: -len(nl)]
    return data, {"records": recs, "crlf": crlf, "final_nl": final_nl, "widths": ws}


def gen_sub_assembly(rng, records, buffer, nsc=None, strands=(1, -1, 0)):
    """G-sub: scaffolds whose rows are arbitrary sub-intervals of the records (plain data)."""
    scs = []
    for k in range(nsc or rng.randint(1, 3)):
        rows = []
        for j in range(rng.randint(1, 6)):
            if j and rng.random() < 0.5:
                g = rng.choice([1, 5, 59, 60, 61, buffer, buffer + 1, 2 * buffer, 2 * buffer + 1]) if buffer < 2000 else rng.choice([1, 5, 59, 60, 61, 121, 500])
                rows.append(["G", g, "scaffold"])
            name, seq = rng.choice(records)
            m = rng.random()
            if m < 0.2:
                a, b = 1, len(seq)
            else:
                a = rng.randint(1, len(seq))
                b = rng.randint(a, len(seq))
            rows.append(["F", name, a, b, rng.choice(strands), []])
        if rng.random() < 0.1:
            rows.append(["G", rng.randint(1, 70), "scaffold"])  # trailing gap is legal for the stream writer
        if rng.random() < 0.1:
            rows.insert(0, ["G", rng.randint(1, 70), "scaffold"])
        scs.append([f"out{k}", rows])
    return scs
