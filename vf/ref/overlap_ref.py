"""Brute-force reference for IndexedAssembly.find_overlaps (C12) on plain rows."""

from vf.core import row_len


def scan(rows, a, b):
    """rows: plain rows; query [a, b] in scaffold coordinates (1-based inclusive).

    Returns None, or (i, j, start, end): indices of first/last returned row and
    the scaffold coordinates of the first base of row i and last base of row j.
    Linear scan from the definition: a row is hit iff its span intersects
    [a, b]; leading and trailing gap rows are dropped.
    """
    hits = []
    p = 0
    for idx, r in enumerate(rows):
        s, e = p + 1, p + row_len(r)
        p = e
        if e >= a and s <= b:
            hits.append((idx, s, e))
    while hits and rows[hits[0][0]][0] == "G":
        hits.pop(0)
    while hits and rows[hits[-1][0]][0] == "G":
        hits.pop()
    if not hits:
        return None
    return hits[0][0], hits[-1][0], hits[0][1], hits[-1][2]


def classify(rows, a, b):
    """Label the query for evidence counters."""
    total = sum(row_len(r) for r in rows)
    labels = []
    if a > total:
        labels.append("beyond_end")
    elif b > total:
        labels.append("overruns_end")
    p = 0
    kinds = set()
    first_hit = last_hit = None
    for idx, r in enumerate(rows):
        s, e = p + 1, p + row_len(r)
        p = e
        if e >= a and s <= b:
            kinds.add(r[0])
            if first_hit is None:
                first_hit = idx
            last_hit = idx
    if kinds == {"G"}:
        labels.append("only_gaps")
        if last_hit == len(rows) - 1:
            labels.append("only_trailing_gap")
        if first_hit == 0:
            labels.append("only_leading_gap")
    if first_hit is not None:
        if rows[first_hit][0] == "G" and "F" in kinds:
            labels.append("strip_leading_gap")
        if rows[last_hit][0] == "G" and "F" in kinds:
            labels.append("strip_trailing_gap")
        if first_hit == last_hit:
            labels.append("one_row_hit")
    return labels
