"""Independent FASTA model: whole file in memory, records, faidx quintuples, run tiling,
and the expected bytes of an assembly applied to the records."""

import re

_PAIRS = {
    # IUPAC complement from the base-set definition of each code
    "A": "T", "C": "G", "G": "C", "T": "A",
    "R": "Y", "Y": "R",  # R = A|G  -> T|C = Y
    "M": "K", "K": "M",  # M = A|C  -> T|G = K
    "S": "S", "W": "W",  # S = C|G, W = A|T
    "H": "D", "D": "H",  # H = A|C|T -> T|G|A = D
    "B": "V", "V": "B",  # B = C|G|T -> G|C|A = V
    "N": "N",
}
COMPLEMENT = bytearray(range(256))
for _a, _b in _PAIRS.items():
    COMPLEMENT[ord(_a)] = ord(_b)
    COMPLEMENT[ord(_a.lower())] = ord(_b.lower())
COMPLEMENT = bytes(COMPLEMENT)


def revcomp(b):
    return bytes(COMPLEMENT[x] for x in reversed(b))


class Malformed(Exception):
    pass


def parse(data):
    """Returns list of records: dict(name, seq, offset, rpl, bpl).  Raises Malformed for
    files without records or with duplicate names."""
    recs = []
    pos = 0
    cur = None
    n = len(data)
    while pos < n:
        nlpos = data.find(b"\n", pos)
        if nlpos < 0:
            line_end = n
            nxt = n
            term = 0
        else:
            line_end = nlpos
            nxt = nlpos + 1
            term = 1
        if term and line_end > pos and data[line_end - 1 : line_end] == b"\r":
            line_end -= 1
            term = 2
        line = data[pos:line_end]
        if line.startswith(b">"):
            toks = line[1:].split()
            if not toks:
                raise Malformed("no name")
            cur = {"name": toks[0].decode(), "lines": [], "offset": nxt, "term": term or 1}
            recs.append(cur)
        elif cur is not None:
            if line or term:
                cur["lines"].append(line)
        pos = nxt
    if not recs:
        raise Malformed("no records")
    names = [r["name"] for r in recs]
    if len(set(names)) != len(names):
        raise Malformed("duplicate names")
    out = []
    for r in recs:
        seq = b"".join(r["lines"])
        rpl = len(r["lines"][0]) if r["lines"] else 0
        out.append({"name": r["name"], "seq": seq, "offset": r["offset"], "rpl": rpl, "bpl": rpl + r["term"]})
    return out


def quintuple(rec):
    return (rec["name"], len(rec["seq"]), rec["offset"], rec["rpl"], rec["bpl"])


def tiling(rec):
    """Expected rows of the derived assembly: ACGT runs -> forward fragments, other runs -> gaps."""
    rows = []
    for m in re.finditer(rb"[ACGTacgt]+|[^ACGTacgt]+", rec["seq"]):
        if m.group()[:1] in b"ACGTacgt":
            rows.append(("F", rec["name"], m.start() + 1, m.end(), 1))
        else:
            rows.append(("G", m.end() - m.start()))
    return rows


def masked(rec):
    return re.sub(rb"[^ACGTacgt]", b"N", rec["seq"])


def wrap(name, seq, width=60):
    out = b">" + name.encode() + b"\n"
    for x in range(0, len(seq), width):
        out += seq[x : x + width] + b"\n"
    return out


def apply(scaffolds, recs_by_name, width=60, gap_char=b"N", mask=False):
    """Expected FASTA bytes of plain scaffolds applied to the records."""
    out = b""
    for name, rows in scaffolds:
        s = b""
        for r in rows:
            if r[0] == "G":
                s += gap_char * r[1]
            else:
                seq = recs_by_name[r[1]]["seq"]
                sub = seq[r[2] - 1 : r[3]]
                if mask:
                    sub = re.sub(rb"[^ACGTacgt]", b"N", sub)
                s += revcomp(sub) if r[4] == -1 else sub
        out += wrap(name, s, width)
    return out


def split_records(fasta_bytes):
    """Parse an *output* FASTA into [(name, seq, line_lengths)] for line-shape checks."""
    recs = []
    for block in fasta_bytes.split(b">")[1:]:
        lines = block.split(b"\n")
        name = lines[0].decode()
        body = lines[1:]
        if body and body[-1] == b"":
            body = body[:-1]
        recs.append((name, b"".join(body), [len(x) for x in body]))
    return recs
