"""Independent TPF model (ToL flavour)."""

import re

from vf.ref.agp_ref import Invalid, _lines, is_blank

STRAND_TXT = {1: "PLUS", -1: "MINUS"}
TXT_STRAND = {v: k for k, v in STRAND_TXT.items()}
GAP_TO_TPF = {"scaffold": "TYPE-2", "contig": "TYPE-3"}
TPF_TO_GAP = {v: k for k, v in GAP_TO_TPF.items()}


def gap_to_tpf(gt):
    if gt in GAP_TO_TPF:
        return GAP_TO_TPF[gt]
    return "".join("-" if c == "_" else (c.upper() if "a" <= c <= "z" else c) for c in gt)


def gap_from_tpf(tt):
    if tt in TPF_TO_GAP:
        return TPF_TO_GAP[tt]
    return "".join("_" if c == "-" else (c.lower() if "A" <= c <= "Z" else c) for c in tt)


def format(asm):  # noqa: A001
    out = []
    for h in asm.get("header", []):
        out.append(f"## {h}\n")
    for name, rows in asm["scaffolds"]:
        for r in rows:
            if r[0] == "G":
                out.append("\t".join(["GAP", gap_to_tpf(r[2]), str(r[1])]) + "\n")
            else:
                out.append("\t".join(["?", f"{r[1]}:{r[2]}-{r[3]}", name, STRAND_TXT[r[4]]]) + "\n")
    return "".join(out)


def parse(text):
    header = []
    scaffolds = []
    acct = []
    cur = None
    for ln, line in enumerate(_lines(text), 1):
        if is_blank(line):
            continue
        if line.startswith("#"):
            h = line.lstrip("# \t\r\f\v")
            if h:
                header.append(h)
            continue
        f = line.rstrip("\r\n").split("\t")
        if f[0] == "GAP":
            if cur is None:
                raise Invalid("gap before first fragment")
            if len(f) < 3:
                raise Invalid("gap line too short")
            if not (f[2].isascii() and f[2].isdigit()):
                raise Invalid("gap length")
            row = ["G", int(f[2]), gap_from_tpf(f[1])]
        else:
            if len(f) != 4:
                raise Invalid("field count")
            m = re.match(r"(.+):(\d+)-(\d+)$", f[1], flags=re.ASCII)
            if not m:
                raise Invalid("name format")
            if f[3] not in TXT_STRAND:
                raise Invalid("strand")
            s, e = int(m.group(2)), int(m.group(3))
            if s > e:
                raise Invalid("start > end")
            if cur is None or cur[0] != f[2]:
                cur = [f[2], []]
                scaffolds.append(cur)
            row = ["F", m.group(1), s, e, TXT_STRAND[f[3]], []]
        cur[1].append(row)
        acct.append((ln, cur[0], row))
    return {"header": header, "scaffolds": scaffolds}, acct
