"""Adjacency relation of contig ends (C07, C11).

A contig end is (contig name, coordinate, 'lo'|'hi').  An adjacency is the unordered pair of
the two facing ends of consecutive fragments of a scaffold (gap rows between them skipped)."""


def right_end(f):
    """end of fragment row f that faces the next row"""
    return (f[1], f[3], "hi") if f[4] == 1 else (f[1], f[2], "lo")


def left_end(f):
    """end of fragment row f that faces the previous row"""
    return (f[1], f[2], "lo") if f[4] == 1 else (f[1], f[3], "hi")


def adjacencies(scaffolds):
    """-> ({frozenset(end_a, end_b): tuple of gap rows between}, number of fragments)"""
    adj = {}
    nfrag = 0
    for _, rows in scaffolds:
        prev = None
        gaps = []
        for r in rows:
            if r[0] == "F":
                nfrag += 1
                if prev is not None:
                    adj[frozenset((right_end(prev), left_end(r)))] = tuple(gaps)
                prev = r
                gaps = []
            else:
                gaps.append((r[1], r[2]))
    return adj, nfrag


def contiguous_in_contig(prev, r):
    """True if the facing ends of two output fragments are consecutive bases of one contig
    (two halves of a cut contig meeting again in the original relative orientation)."""
    a, b = right_end(prev), left_end(r)
    if a[0] != b[0] or a[2] == b[2]:
        return False
    hi, lo = (a, b) if a[2] == "hi" else (b, a)
    return hi[1] + 1 == lo[1]


def _subseq(g, ref):
    it = iter(ref)
    return all(any(x == y for y in it) for x in g)


def check_gaps(inp, out, join_gap, pv_model):
    """C07.  Returns [(sig, msg)], counters dict."""
    in_adj, _ = adjacencies(inp)
    errs = []
    cnt = {"gapless": 0, "input-gap-kept": 0, "join-gap": 0, "join-gap-between-neighbours": 0}
    jg = ((join_gap[1], join_gap[2]),)
    for key, scs in out:
        for sname, rows in scs:
            where = f"{key}/{sname}"
            if not rows:
                errs.append(("empty-output-scaffold", where))
                continue
            if rows[0][0] == "G" or rows[-1][0] == "G":
                errs.append(("scaffold-begins-or-ends-with-gap", f"{where}: {rows[0]} ... {rows[-1]}"))
            prev = None
            gaps = []
            for r in rows:
                if r[0] != "F":
                    gaps.append((r[1], r[2]))
                    continue
                if prev is not None:
                    e = frozenset((right_end(prev), left_end(r)))
                    g = tuple(gaps)
                    if not g:
                        cnt["gapless"] += 1
                        if in_adj.get(e, None) != () and not contiguous_in_contig(prev, r):
                            why = "had a gap in the input" if e in in_adj else "were not neighbours in the input"
                            errs.append(("gapless-junction-" + ("input-had-gap" if e in in_adj else "not-input-neighbours"),
                                         f"{where}: {prev[1]}:{prev[2]}-{prev[3]}({prev[4]}) directly followed by {r[1]}:{r[2]}-{r[3]}({r[4]}) but these ends {why} ({in_adj.get(e)})"))
                    elif pv_model:
                        if e in in_adj:
                            if g == in_adj[e] or g == in_adj[e][::-1]:  # a reversed scaffold mirrors consecutive gap rows
                                cnt["input-gap-kept"] += 1
                            elif len(in_adj[e]) > 1 and (_subseq(g, in_adj[e]) or _subseq(g, in_adj[e][::-1])):
                                # the statement speaks of each gap *row*: with several consecutive gap rows in the
                                # input, every output row is one of them (same length and type)
                                cnt["input-gap-rows-subset"] = cnt.get("input-gap-rows-subset", 0) + 1
                            elif g == jg:
                                cnt["join-gap-between-neighbours"] += 1
                            else:
                                errs.append(("gap-between-input-neighbours-is-neither-input-gap-nor-join-gap",
                                             f"{where}: gap {g} between input neighbours {prev[1]}:{prev[2]}-{prev[3]} | {r[1]}:{r[2]}-{r[3]} (input gap {in_adj[e]}, join gap {jg})"))
                        elif g == jg:
                            cnt["join-gap"] += 1
                        else:
                            errs.append(("junction-of-non-neighbours-without-join-gap",
                                         f"{where}: gap {g} between non-neighbours {prev[1]}:{prev[2]}-{prev[3]} | {r[1]}:{r[2]}-{r[3]} (join gap {jg})"))
                prev = r
                gaps = []
    return errs, cnt
