"""Independent counter of cuts / breaks / joins (C11)."""

from vf.ref.gaps_ref import adjacencies


def count(inp, out):
    """-> dict(cuts, breaks, joins, in_adj, out_adj, per_asm)"""
    in_adj, nin = adjacencies(inp)
    out_all = set()
    nout = 0
    per = {}
    for key, scs in out:
        adj, n = adjacencies(scs)
        nout += n
        per[key] = set(adj)
        out_all |= set(adj)
    ins = set(in_adj)
    return {
        "cuts": nout - nin,
        "breaks": len(ins - out_all),
        "joins": len(out_all - ins),
        "in": ins,
        "out": out_all,
        "per_asm": per,
    }
