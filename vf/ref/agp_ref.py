"""Independent AGP model (ToL flavour): formatter, line parser, validator.

Plain assembly = {"header": [str...], "scaffolds": [[name, [rows...]]...]}.
"""

STRAND_TXT = {1: "+", -1: "-", 0: "?"}
TXT_STRAND = {v: k for k, v in STRAND_TXT.items()}


class Invalid(Exception):
    pass


def _lines(text):
    """lines as a text-mode file iterator yields them (split on \\n only)"""
    ls = text.split("\n")
    if ls and ls[-1] == "":
        ls.pop()
    return ls


def format(asm):  # noqa: A001
    out = []
    for h in asm.get("header", []):
        out.append(f"# {h}\n")
    for name, rows in asm["scaffolds"]:
        p = 0
        for i, r in enumerate(rows, 1):
            if r[0] == "G":
                out.append("\t".join([name, str(p + 1), str(p + r[1]), str(i), "U", str(r[1]), r[2], "yes", "proximity_ligation"]) + "\n")
                p += r[1]
            else:
                ln = r[3] - r[2] + 1
                cols = [name, str(p + 1), str(p + ln), str(i), "W", r[1], str(r[2]), str(r[3]), STRAND_TXT[r[4]], *r[5]]
                out.append("\t".join(cols) + "\n")
                p += ln
    return "".join(out)


def _int(s):
    if not s or not (s.isascii() and s.isdigit()):
        raise Invalid(f"not an integer: {s!r}")
    return int(s)


def parse_row(line):
    """One data line -> (object name, plain row).  Raises Invalid."""
    f = line.rstrip().split("\t")
    if len(f) < 5:
        raise Invalid("too few columns")
    if f[4] in ("U", "N"):
        if len(f) < 7:
            raise Invalid("too few columns for a gap row")
        return f[0], ["G", _int(f[5]), f[6]]
    if len(f) < 9:
        raise Invalid("too few columns for a sequence row")
    if f[8] not in TXT_STRAND:
        raise Invalid(f"bad strand {f[8]!r}")
    s, e = _int(f[6]), _int(f[7])
    if s > e:
        raise Invalid("start > end")
    return f[0], ["F", f[5], s, e, TXT_STRAND[f[8]], list(f[9:])]


def is_blank(line):
    return line.strip() == ""


def parse(text):
    """Whole text -> plain assembly + list of (line number, row) for line accounting."""
    header = []
    scaffolds = []
    acct = []
    cur = None
    for ln, line in enumerate(_lines(text), 1):
        if is_blank(line):
            continue
        if line.startswith("##"):
            continue
        if line.startswith("#"):
            h = line.lstrip("# \t\r\f\v")
            if h:
                header.append(h)
            continue
        obj, row = parse_row(line)
        if cur is None or cur[0] != obj:
            cur = [obj, []]
            scaffolds.append(cur)
        cur[1].append(row)
        acct.append((ln, obj, row))
    return {"header": header, "scaffolds": scaffolds}, acct


def validate(text, lengths=None):
    """C06: returns list of (signature, message) problems of an AGP text.

    lengths: optional {object name: expected length} (Scaffold.length / FASTA record length)."""
    probs = []
    objs = {}
    order = []
    for ln, line in enumerate(_lines(text), 1):
        if is_blank(line) or line.startswith("#"):
            continue
        f = line.rstrip("\n").split("\t")
        if len(f) < 9:
            probs.append(("too-few-columns", f"line {ln}: {line!r}"))
            continue
        try:
            ob, oe, part = int(f[1]), int(f[2]), int(f[3])
        except ValueError:
            probs.append(("object-coordinates-not-integers", f"line {ln}: {line!r}"))
            continue
        st = objs.get(f[0])
        if st is None:
            st = objs[f[0]] = {"pos": 0, "part": 0, "closed": False}
            order.append(f[0])
        elif order[-1] != f[0]:
            probs.append(("object-rows-not-contiguous", f"line {ln}: object {f[0]} resumes after another object"))
        if ob != st["pos"] + 1:
            probs.append(("object-hole-or-overlap", f"line {ln}: object_beg {ob} after previous end {st['pos']}"))
        if part != st["part"] + 1:
            probs.append(("part-number", f"line {ln}: part {part} after {st['part']}"))
        if oe < ob:
            probs.append(("object-end-before-begin", f"line {ln}: {ob}-{oe}"))
        if f[4] in ("U", "N"):
            try:
                gl = int(f[5])
            except ValueError:
                probs.append(("gap-length-not-integer", f"line {ln}"))
                gl = None
            if gl is not None and oe - ob + 1 != gl:
                probs.append(("gap-span-differs-from-length", f"line {ln}: span {oe - ob + 1} length {gl}"))
            if gl is not None and gl < 1:
                probs.append(("gap-length-not-positive", f"line {ln}: {gl}"))
            if f[4] != "U":
                probs.append(("gap-component-type-not-U", f"line {ln}: {f[4]}"))
            if not f[6]:
                probs.append(("gap-type-empty", f"line {ln}"))
            if f[7] != "yes":
                probs.append(("gap-linkage-not-yes", f"line {ln}: {f[7]!r}"))
            if len(f) != 9 or not f[8]:
                probs.append(("gap-row-column-count", f"line {ln}: {len(f)} columns"))
        else:
            if f[4] != "W":
                probs.append(("sequence-component-type-not-W", f"line {ln}: {f[4]}"))
            try:
                cb, ce = int(f[6]), int(f[7])
            except ValueError:
                probs.append(("component-coordinates-not-integers", f"line {ln}"))
                cb = ce = None
            if cb is not None:
                if cb < 1 or ce < cb:
                    probs.append(("component-interval-invalid", f"line {ln}: {cb}-{ce}"))
                if ce - cb != oe - ob:
                    probs.append(("object-span-differs-from-component-span", f"line {ln}: object {ob}-{oe} component {cb}-{ce}"))
            if f[8] not in ("+", "-", "?"):
                probs.append(("bad-orientation", f"line {ln}: {f[8]!r}"))
            if not f[5]:
                probs.append(("component-id-empty", f"line {ln}"))
        st["pos"] = oe
        st["part"] = part
    if lengths is not None:
        for name, ln_exp in lengths.items():
            got = objs.get(name, {"pos": 0})["pos"]
            if got != ln_exp:
                probs.append(("object-length-differs-from-scaffold-length", f"object {name}: last end {got}, expected {ln_exp}"))
        for name in objs:
            if name not in lengths:
                probs.append(("unexpected-object", f"object {name}"))
    return probs, {k: v["pos"] for k, v in objs.items()}
