"""Placement reference: where did every input base go?  (C01 partition, C02 layout, C09 routing)

All functions work on plain data:
  inp  = [[scaffold name, rows]...]
  out  = [[assembly key, [[scaffold name, rows]...]]...]
"""

import math
from collections import defaultdict

from vf.core import rows_with_pos


def margin(t):
    return 3 * (1 + math.floor(t))


# ---------------------------------------------------------------------------
# C01: interval partition
# ---------------------------------------------------------------------------

def check_partition(inp, out, limit=6):
    """Every base of every input contig in exactly one output fragment; every output
    fragment inside one input contig of that name.  Returns [(sig, msg)]."""
    contigs = defaultdict(list)
    for _, rows in inp:
        for r in rows:
            if r[0] == "F":
                contigs[r[1]].append((r[2], r[3]))
    got = defaultdict(list)
    for key, scs in out:
        for sname, rows in scs:
            for r in rows:
                if r[0] == "F":
                    got[r[1]].append((r[2], r[3], key, sname))
    errs = []
    for name, ivs in got.items():
        civs = contigs.get(name)
        if not civs:
            errs.append(("invented-contig", f"output fragment(s) of unknown contig {name!r}: {ivs[:3]}"))
            continue
        for a, b, key, sname in ivs:
            if not any(cs <= a and b <= ce for cs, ce in civs):
                errs.append(("fragment-not-within-one-input-contig", f"{name}:{a}-{b} in {key}/{sname} is not a sub-interval of an input contig {sorted(civs)[:6]}"))
    for name, civs in contigs.items():
        g = sorted(got.get(name, []))
        for cs, ce in civs:
            pos = cs
            for a, b, key, sname in g:
                if b < cs or a > ce:
                    continue
                if a > pos:
                    errs.append(("bases-lost", f"{name}:{pos}-{a - 1} of input contig {name}:{cs}-{ce} is in no output fragment"))
                if a < pos:
                    errs.append(("bases-duplicated", f"{name}:{a}-{min(b, pos - 1)} of input contig {name}:{cs}-{ce} is in more than one output fragment (again in {key}/{sname})"))
                pos = max(pos, b + 1)
            if pos <= ce:
                errs.append(("bases-lost", f"{name}:{pos}-{ce} of input contig {name}:{cs}-{ce} is in no output fragment"))
        if len(errs) > limit:
            break
    return errs[:limit]


# ---------------------------------------------------------------------------
# base-level placement map
# ---------------------------------------------------------------------------

class OutMap:
    def __init__(self, out):
        self.by_contig = defaultdict(list)
        self.scaffolds = {}
        for ai, (key, scs) in enumerate(out):
            for si, (sname, rows) in enumerate(scs):
                sid = (ai, si)
                self.scaffolds[sid] = (key, sname, rows)
                for y1, y2, r in rows_with_pos(rows):
                    if r[0] == "F":
                        self.by_contig[r[1]].append((r[2], r[3], r[4], sid, y1, y2))

    def locate(self, name, pos):
        """-> (scaffold id, y, strand) of contig base name:pos, or None."""
        for fs, fe, st, sid, y1, y2 in self.by_contig.get(name, ()):
            if fs <= pos <= fe:
                y = y1 + (pos - fs) if st == 1 else y2 - (pos - fs)
                return sid, y, st
        return None

    def row_at(self, sid, y):
        for y1, y2, r in rows_with_pos(self.scaffolds[sid][2]):
            if y1 <= y <= y2:
                return y1, y2, r
        return None


def input_row_at(rows, x):
    for x1, x2, r in rows_with_pos(rows):
        if x1 <= x <= x2:
            return x1, x2, r
    return None


def contig_pos(x1, x2, r, x):
    """contig coordinate of scaffold position x inside fragment row r spanning x1..x2"""
    return r[2] + (x - x1) if r[4] == 1 else r[3] - (x - x1)


def piece_core(piece, t):
    m = margin(t)
    lo = piece["start"] + m + 1
    hi = min(piece["end"], piece["L"]) - m - 1
    return (lo, hi) if lo <= hi else None


def core_points(rows, lo, hi, dense=False):
    """[(x, x1, x2, row)] sample of contig bases inside the core."""
    pts = []
    for x1, x2, r in rows_with_pos(rows):
        if r[0] != "F":
            continue
        a, b = max(x1, lo), min(x2, hi)
        if a > b:
            continue
        xs = range(a, b + 1) if dense and b - a < 400 else sorted({a, b, (a + b) // 2, min(b, a + 1), max(a, b - 1)})
        for x in xs:
            pts.append((x, x1, x2, r))
    return pts


def check_layout(inp, pieces, om, t, dense=False):
    """C02: returns ([(sig, msg)], placements) where placements[i] = dict for piece i or None.

    pieces carry s, start, end, L, pt, ord, strand."""
    by_name = {s[0]: s[1] for s in inp}
    errs = []
    placements = []
    for pc in pieces:
        core = piece_core(pc, t)
        if core is None:
            placements.append(None)
            continue
        rows = by_name[pc["s"]]
        pts = core_points(rows, core[0], core[1], dense)
        if not pts:
            placements.append(None)
            continue
        sigma = pc["strand"]
        ref = None
        ys = []
        bad = False
        label = f"piece {pc['s']}:{pc['start']}-{pc['end']}({'+' if sigma == 1 else '-'}) of Pretext scaffold #{pc['pt'] + 1}"
        for x, x1, x2, r in pts:
            cpos = contig_pos(x1, x2, r, x)
            loc = om.locate(r[1], cpos)
            if loc is None:
                errs.append(("core-base-missing-from-output", f"{label}: core base {r[1]}:{cpos} (scaffold pos {x}) is in no output fragment"))
                bad = True
                break
            sid, y, ost = loc
            if ref is None:
                ref = (sid, x, y)
            if sid != ref[0]:
                errs.append(("core-split-across-output-scaffolds", f"{label}: core bases in {om.scaffolds[ref[0]][:2]} and {om.scaffolds[sid][:2]}"))
                bad = True
                break
            if y != ref[2] + sigma * (x - ref[1]):
                errs.append(("core-not-collinear-contiguous", f"{label}: base at input pos {x} is at output pos {y}, expected {ref[2] + sigma * (x - ref[1])} (anchor {ref[1]}->{ref[2]})"))
                bad = True
                break
            if ost != r[4] * sigma:
                errs.append(("core-orientation", f"{label}: contig {r[1]} strand {ost}, expected input {r[4]} x piece {sigma}"))
                bad = True
                break
            ys.append(y)
        if bad or ref is None:
            placements.append(None)
            continue
        ymin, ymax = min(ys), max(ys)
        sid, x0, y0 = ref
        # walk the image interval: every output row inside it must be the image of the input row there
        for y1, y2, orow in rows_with_pos(om.scaffolds[sid][2]):
            a, b = max(y1, ymin), min(y2, ymax)
            if a > b:
                continue
            for y in {a, b}:
                x = x0 + sigma * (y - y0)
                ir = input_row_at(rows, x)
                if ir is None:
                    errs.append(("foreign-row-inside-piece-image", f"{label}: output pos {y} maps to input pos {x} outside the scaffold"))
                    bad = True
                    break
                ix1, ix2, irow = ir
                if orow[0] == "G":
                    if irow[0] != "G":
                        errs.append(("foreign-gap-inside-piece-image", f"{label}: output gap {orow} at {y} where the input has {irow}"))
                        bad = True
                        break
                    if irow[2] != orow[2] or (y2 - y1) != (ix2 - ix1):
                        errs.append(("internal-gap-changed", f"{label}: output gap {orow} at {y}, input gap {irow}"))
                        bad = True
                        break
                else:
                    if irow[0] != "F" or irow[1] != orow[1]:
                        errs.append(("foreign-row-inside-piece-image", f"{label}: output row {orow} at {y} where the input has {irow}"))
                        bad = True
                        break
            if bad:
                break
        if bad:
            placements.append(None)
            continue
        placements.append({"sid": sid, "ymin": ymin, "ymax": ymax})
    # Pretext order of pieces sharing a destination (observed positions only)
    by_pt = defaultdict(list)
    for pc, pl in zip(pieces, placements):
        if pl is not None:
            by_pt[pc["pt"]].append((pc["ord"], pl, pc))
    for pt, lst in by_pt.items():
        lst.sort(key=lambda z: z[0])
        last = {}
        for _, pl, pc in lst:
            prev = last.get(pl["sid"])
            if prev is not None and not prev < pl["ymin"]:
                errs.append(("pieces-out-of-pretext-order", f"Pretext scaffold #{pt + 1}: piece {pc['s']}:{pc['start']}-{pc['end']} placed at {pl['ymin']}-{pl['ymax']} not after the previous piece (ends {prev}) in {om.scaffolds[pl['sid']][:2]}"))
            last[pl["sid"]] = pl["ymax"]
    return errs, placements


def check_cut_points(inp, pieces, out, t):
    """A cut deeper than the margin inside a contig splits it exactly at the designated coordinate."""
    m = margin(t)
    by_name = {s[0]: s[1] for s in inp}
    ends = defaultdict(set)
    for _, scs in out:
        for _, rows in scs:
            for r in rows:
                if r[0] == "F":
                    ends[r[1]].add(r[3])
    errs = []
    deep = 0
    by_sc = defaultdict(list)
    for pc in pieces:
        by_sc[pc["s"]].append(pc)
    for sn, ps in by_sc.items():
        ps = sorted(ps, key=lambda p: p["start"])
        for pc in ps[:-1]:
            c = pc["end"]
            for x1, x2, r in rows_with_pos(by_name[sn]):
                if r[0] == "F" and x1 <= c < x2 and (c - x1 + 1) > m and (x2 - c) > m:
                    deep += 1
                    if r[4] == 1:
                        left_end = r[2] + (c - x1)
                    else:
                        left_end = r[3] - (c - x1) - 1
                    if left_end not in ends[r[1]]:
                        errs.append(("cut-not-at-designated-coordinate", f"cut after {sn}:{c} inside {r[1]}:{r[2]}-{r[3]}({r[4]}) should end a fragment at {r[1]}:{left_end}; fragment ends present: {sorted(ends[r[1]])[:8]}"))
    return errs, deep
