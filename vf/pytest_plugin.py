"""Run the repository's own test-suite with the runtime contracts attached.

    cd <repo> && PYTHONPATH=/verif:/verif/.deps:<repo>/src /venv/bin/python -m pytest -q -p no:cacheprovider -p vf.pytest_plugin

A contract that fires here is either too strict or a defect the tests do not assert; the
witnesses are printed at the end of the session and make the session fail.
(tools/tests_under_contracts.sh wraps this.)
"""

import pytest

_CTX = None


def pytest_configure(config):
    global _CTX
    from vf.core import Ctx
    from vf.props import c06, c12, c14, c18, c19, c20

    _CTX = Ctx("repo-tests", {})
    c12.attach(_CTX, "repo-tests")
    c18.attach(_CTX, "repo-tests")
    c14.attach(_CTX, "repo-tests")
    c19.attach(_CTX)
    c20.attach(_CTX)
    c06.attach(_CTX, {"origin": "repo-tests"})


def pytest_terminal_summary(terminalreporter, exitstatus, config):
    from vf.mon import contracts

    tr = terminalreporter
    tr.section("runtime contracts (vf)")
    tr.write_line("contract evaluations: " + ", ".join(f"{k}={v}" for k, v in sorted(contracts.EVALS.items())))
    real = _real_violations()
    tr.write_line(f"monitored cases: {_CTX.evaluations}; violations: {len(real)} (+{_CTX.viol_count - len(real)} on objects a unit test broke on purpose)")
    for v in real[:10]:
        tr.write_line(f"  {v['sig']}: {v['msg'][:300]}")


def _real_violations():
    # tests/indexed_assembly_test.py deletes the index of an assembly by hand to provoke
    # "Scaffold ... is not indexed"; that object is outside the C12 domain
    return [v for v in _CTX.violations if "is not indexed" not in v["msg"]]


def pytest_sessionfinish(session, exitstatus):
    if _CTX is not None and _real_violations() and session.exitstatus == 0:
        session.exitstatus = 1
