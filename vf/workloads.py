"""Shared remap workload: generate (input, Pretext) cases, run the real pipeline, hand the
outcome to the property's oracle.  Whatever monitors are attached see every call."""

import io

from vf.core import build_scaffolds, dump_assemblies, exc_site, rng_for
from vf.gen import asm as gasm
from vf.gen import pv as gpv
from vf.gen import tag as gtag

JOIN_GAP = ["G", 200, "scaffold"]


def make_case(seed, shard_index, i, kind, opts=None):
    opts = opts or {}
    rng = rng_for(seed, "remap", kind, shard_index, i)
    t = opts.get("t") or gasm.pick_texel(rng, small=opts.get("small_t", False))
    hmode = rng.choice(gpv.HOSTILE_MODES) if kind == "hostile" else None
    if hmode == "holes":
        # holes matter where short contigs straddle the piece boundary
        opts = {**opts, "small_contigs": True, "max_texels": rng.choice([3, 6, 60])}
    inp, l_in = gasm.gen_input(
        rng,
        t,
        n_scaff=opts.get("n_scaff"),
        mode=opts.get("mode"),
        strands=tuple(opts["strands"]) if opts.get("strands") else None,
        max_contigs=opts.get("max_contigs", 8),
        max_texels=opts.get("max_texels", 60),
        terminal_gaps=opts.get("terminal_gaps", False),
        gap_only=opts.get("gap_only", False),
        small_contigs=opts.get("small_contigs", False) or (kind == "hostile" and rng.random() < 0.5),
    )
    case = {"kind": "remap", "gen": kind, "t": t, "input": inp, "prefix": "SUPER_", "id": [seed, shard_index, i]}
    if kind == "pv":
        pt, pieces, l_pv = gpv.gen_pv_case(rng, t, inp, cut_prob=opts.get("cut_prob", 0.5), paint_prob=opts.get("paint_prob", 0.6))
        case["pretext"] = pt
        case["pieces"] = pieces
        labels = l_in | l_pv
    elif kind == "hostile":
        pt, l_h = gpv.gen_hostile(rng, t, inp, hmode)
        case["pretext"] = pt
        labels = l_in | l_h
    elif kind in ("tag", "vanish", "tagdrop"):
        # tagdrop: a designed map from which one piece is missing (no longer a PretextView-model map: an error is
        # an allowed outcome and only the routing of what is left, and of the absent sequence, is judged - by C09)
        pt, design = gtag.gen_single(rng, t, inp, vanishing=(kind == "vanish"), drop_piece=(kind == "tagdrop"))
        case["pretext"] = pt
        case["pieces"] = design["pieces"]
        case["design"] = {k: v for k, v in design.items() if k != "pieces"}
        case["prefix"] = design["prefix"]
        labels = l_in | set(design["labels"])
        if kind == "tag" and not design["target_mode"] and rng.random() < 0.25:
            # (pieces keep their Pretext scaffold index 'pt' only for ordering inside one scaffold: re-derive it)
            before = {id(sc): n for n, sc in enumerate(pt)}
            if gtag.add_haplotig_slivers(rng, inp, pt, t):
                remap = {before[id(sc)]: n for n, sc in enumerate(pt) if id(sc) in before}
                for pc in design["pieces"]:
                    pc["pt"] = remap[pc["pt"]]
                labels.add("tag:haplotig-slivers")
    elif kind == "tag2":
        res = None
        while res is None:
            res = gtag.gen_two_hap(rng, t, unprefixed=rng.random() < 0.5)
        inp, pt, design = res
        case["input"] = inp
        case["pretext"] = pt
        case["pieces"] = design["pieces"]
        case["design"] = {k: v for k, v in design.items() if k != "pieces"}
        case["prefix"] = design["prefix"]
        labels = set(design["labels"])
    else:
        raise ValueError(kind)
    if kind == "hostile" and rng.random() < 0.06 and len(case["input"]) >= 2:
        # an odd input: a scaffold name that comes back in a second, separate block of rows
        # (must end in an error or in outputs that still hold every contig)
        src = rng.choice(case["input"])
        frs = [r for r in src[1] if r[0] == "F"]
        if len(frs) >= 2:
            cut = rng.randint(1, len(src[1]) - 1)
            head, tail = src[1][:cut], src[1][cut:]
            while tail and tail[0][0] == "G":
                tail = tail[1:]
            while head and head[-1][0] == "G":
                head = head[:-1]
            if head and tail:
                src[1][:] = head
                case["input"].append([src[0], tail])
                labels.add("in:scaffold-name-in-two-blocks")
    case["via_text"] = rng.random() < opts.get("via_text", 0.15) and "in:scaffold-name-in-two-blocks" not in labels
    if case["via_text"]:
        case["via_text"] = rng.choice(["agp", "tpf"])
        if opts.get("gap_only") and "in:gap-only-scaffold" in labels:
            case["via_text"] = "agp"  # (a scaffold without a contig cannot be written as TPF)
        labels.add(f"in:via-{case['via_text']}-text")
        if rng.random() < 0.25:
            case["pretext_crlf"] = True
            labels.add("in:pretext-text-with-crlf")
        if float(t).is_integer() and rng_for(seed, "texel-header", shard_index, i).random() < 0.5:
            case["texel_header_plain"] = True
            labels.add("in:texel-resolution-without-decimals")
        if case["via_text"] == "agp" and rng.random() < 0.5:
            case["agp_variant"] = rng.choice(["v1.1-gaps", "component-types", "known-length-gaps"])
            labels.add(f"in:agp-{case['agp_variant']}")
        if case["via_text"] == "tpf" and rng.random() < 0.3:
            case["tpf_variant"] = "gap-method-column"
            labels.add("in:tpf-gap-method-column")
    # (through AGP text two adjacent blocks of one name would simply be read as one scaffold)
    if opts.get("no_join_gap") and rng.random() < opts["no_join_gap"]:
        case["no_join_gap"] = True
        labels.add("cfg:no-join-gap-configured")
    if rng_for(seed, "prefix-set-again", shard_index, i).random() < 0.1:
        case["prefix_set_again"] = True
        labels.add("cfg:prefix-assigned-again-after-remap")
    case["labels"] = sorted(labels)
    return case


def build_inputs(case):
    from tola.assembly.assembly import Assembly
    from tola.assembly.indexed_assembly import IndexedAssembly

    t = case["t"]
    if case.get("via_text"):
        # the route the CLI takes: AGP text with the PretextView header, parsed
        from tola.assembly.format import format_agp
        from tola.assembly.parser import parse_agp

        ptxt = gpv.pretext_agp_text(case["pretext"], t)
        if case.get("texel_header_plain") and float(t).is_integer():
            # a whole-number resolution written without decimals ("250 bp/texel"), as other writers of this header do
            ptxt = ptxt.replace(f"{t:.6f} bp/texel", f"{int(t)} bp/texel")
        if case.get("pretext_crlf"):
            ptxt = ptxt.replace("\n", "\r\n")  # a map saved on / passed through a system with CRLF line ends
        pa = parse_agp(io.StringIO(ptxt, newline=""), "p")
        # PretextView prints 6 decimals: cases are generated with t rounded to 6 decimals
        # the input assembly is written by the reference formatters (so that a parser defect is not
        # cancelled by the matching formatter) as AGP or as TPF, the CLI's two text input formats
        if case["via_text"] == "tpf":
            from tola.assembly.parser import parse_tpf
            from vf.ref import tpf_ref

            ttext = tpf_ref.format({"header": [], "scaffolds": case["input"]})
            if case.get("tpf_variant") == "gap-method-column":
                # NCBI TPF gap lines may carry a fourth column (the method by which the gap was sized)
                ttext = "".join(ln + "\tPAIRED_ENDS\n" if ln.startswith("GAP\t") else ln + "\n" for ln in ttext.split("\n") if ln)
            ia = IndexedAssembly.new_from_assembly(parse_tpf(io.StringIO(ttext), "in"))
        else:
            from vf.ref import agp_ref

            text = agp_ref.format({"header": [], "scaffolds": case["input"]})
            if case.get("agp_variant"):
                # other legal spellings of the same assembly: AGP 1.1 gap lines (8 columns) and
                # component types other than W (A, D, F, G, O, P are all sequence rows)
                lines = []
                for k, ln in enumerate(text.split("\n")):
                    f = ln.split("\t")
                    if len(f) >= 9 and not ln.startswith("#"):
                        if f[4] in ("N", "U") and case["agp_variant"] == "v1.1-gaps":
                            f = f[:8]
                        elif f[4] == "U" and case["agp_variant"] == "known-length-gaps":
                            f[4] = "N"  # a gap of known length
                        elif f[4] == "W" and case["agp_variant"] == "component-types":
                            f[4] = "WADFGOP"[(k + len(f[5])) % 7]
                    lines.append("\t".join(f))
                text = "\n".join(lines)
            ia = IndexedAssembly.new_from_assembly(parse_agp(io.StringIO(text), "in"))
    else:
        pa = Assembly("p", scaffolds=build_scaffolds(case["pretext"]), bp_per_texel=t)
        ia = IndexedAssembly("in", scaffolds=build_scaffolds(case["input"]))
    return pa, ia


def run_case(case):
    """Run the real remap; returns outcome dict (never raises for repo errors)."""
    from tola.assembly.build_assembly import BuildAssembly
    from tola.assembly.gap import Gap

    res = {"ok": False}
    try:
        pa, ia = build_inputs(case)
        if case.get("no_join_gap"):
            # the constructor's own default: no join gap configured (pieces are fused without a gap row)
            ba = BuildAssembly("out", autosome_prefix=case.get("prefix", "SUPER_"))
        else:
            ba = BuildAssembly("out", default_gap=Gap(JOIN_GAP[1], JOIN_GAP[2]), autosome_prefix=case.get("prefix", "SUPER_"))
        res["ba"] = ba
        ba.remap_to_input_assembly(pa, ia)
        if case.get("prefix_set_again"):
            # the caller assigns the chromosome prefix (to the value it has) between the two steps
            ba.autosome_prefix = ba.autosome_prefix
        out = ba.assemblies_with_scaffolds_fused()
        res["out_obj"] = out
        res["out"] = dump_assemblies(out)
        st = ba.assembly_stats
        res["stats"] = {"cuts": st.cuts, "breaks": st.breaks, "joins": st.joins}
        res["ok"] = True
    except Exception as e:  # noqa: BLE001 - an error is an allowed, recorded outcome
        et, fn = exc_site(e)
        res["exc"] = {"type": et, "fn": fn, "msg": str(e)[:600]}
        res["exc_obj"] = e
    return res


def remap_objects(case, pa, ia):
    """One remap + fuse on the objects given (which the caller may have used before); -> ("ok", dump) or ("exc", type)."""
    from tola.assembly.build_assembly import BuildAssembly
    from tola.assembly.gap import Gap

    try:
        ba = BuildAssembly("out", default_gap=Gap(JOIN_GAP[1], JOIN_GAP[2]), autosome_prefix=case.get("prefix", "SUPER_"))
        ba.remap_to_input_assembly(pa, ia)
        return ("ok", dump_assemblies(ba.assemblies_with_scaffolds_fused()))
    except Exception as e:  # noqa: BLE001
        return ("exc", type(e).__name__)


SET_ASIDE = ("Haplotig", "Contaminant", "FalseDuplicate")


def without_set_aside_tags(pretext):
    return [[n, [r if r[0] == "G" else [*r[:5], [x for x in r[5] if x not in SET_ASIDE]] for r in rows]] for n, rows in pretext]


def run_remap_batch(shard, ctx, kinds=("pv",), oracle=None, opts=None):
    """Generate shard['n'] cases cycling over kinds; call oracle(case, outcome, ctx)."""
    opts = {**(opts or {}), **shard.get("opts", {})}
    n = shard["n"]
    for i in range(n):
        kind = kinds[i % len(kinds)]
        case = make_case(shard["seed"], shard["index"], i, kind, opts)
        outcome = run_case(case)
        ctx.count(f"remap:{kind}:{'completed' if outcome['ok'] else 'error'}")
        if not outcome["ok"]:
            ctx.count(f"remap-error:{outcome['exc']['type']}@{outcome['exc']['fn']}")
        for lab in case["labels"]:
            ctx.count(f"label:{lab}")
        if oracle is not None:
            oracle(case, outcome, ctx)
